import Sck.Model.Flow

/-! Core-only executable MIRROR of the implementation's own augmenting-path search
(`socialchoicekit/flow.py`: `ford_fulkerson`, `dfs_path`, `reachable_vertices`), as opposed to the model's
own search in `Sck/Model/Flow.lean`.  Everything is kept in the data representation of the code:

* a graph / residual graph is the dict `{u: [(v, c), ...]}` as an association list in dict (insertion)
  order: `Graph = List (Int × List (Int × Int))`;
* the `flow` dict is an association list `((u, v), f)` in insertion order;
* the `visited` dict `{v: 0/1}` is represented by the list of the vertices whose value is `1` ("marked").

Dict semantics: the keys of a Python dict are distinct, so the association lists are meant to have
duplicate-free keys (the driver rejects a vertex list with duplicates).  A lookup of a missing key is a
`KeyError` in Python; `mkResidual`, `augment` and `ffDfs` report it as `.error "KeyError"`.  `dfsPath` has no
error channel (its type mirrors the code's `Union[Tuple[List[int], int], None]` plus the mutated `visited`):
it reads a missing `G[current]` as the empty list.  That situation cannot arise inside `ffDfs`: a successful
`mkResidual` guarantees that every neighbour occurring in the residual graph is a key, and `ffDfs` checks that
the source is a key before every search.

Fuel of `dfsPath`: the recursion depth of `dfs_path` is bounded by the number of vertices, because every
vertex on the recursion stack is marked and only un-marked vertices are entered; but the NUMBER of calls is
exponential in general (a successfully explored vertex is un-marked again and is re-explored from sibling
branches).  So the fuel is a DEPTH fuel: `dfsPath` is structurally recursive on it, every recursive call gets
`fuel - 1`, and the loop over the candidates is an inner list recursion (`dfsCands`) that threads `visited`,
`best_path`, `best_capacity` exactly like the `for` loop.  `ffDfs` starts every search with the fuel
`(number of keys) + 1`, which is proved sufficient (`Dfs.dfsPath_complete_top`). -/

namespace Dfs

abbrev Graph := List (Int × List (Int × Int))
abbrev FlowDict := List ((Int × Int) × Int)

/-- `sys.maxsize` on the 64-bit CPython used by the harness -/
def maxsize : Int := 9223372036854775807

/-- dict lookup `G[u]` (first hit; `none` = `KeyError`) -/
def adj? (G : Graph) (u : Int) : Option (List (Int × Int)) :=
  match G.find? (fun e => e.1 == u) with
  | some e => some e.2
  | none => none

/-- `G[u]`, reading a missing key as the empty adjacency list (see the header) -/
def adj (G : Graph) (u : Int) : List (Int × Int) :=
  match adj? G u with
  | some l => l
  | none => []

def keys (G : Graph) : List Int := G.map (·.1)

/-- `G[u] = l` for an existing key `u` (position kept, as in a Python dict) -/
def setKey (G : Graph) (u : Int) (l : List (Int × Int)) : Graph :=
  G.map (fun e => if e.1 == u then (e.1, l) else e)

/-- `d[k] = x` on an insertion-ordered dict -/
def dset (d : FlowDict) (k : Int × Int) (x : Int) : FlowDict :=
  if d.any (fun e => e.1 == k) then d.map (fun e => if e.1 == k then (e.1, x) else e) else d ++ [(k, x)]

/-- `d[k]` -/
def dget? (d : FlowDict) (k : Int × Int) : Option Int :=
  match d.find? (fun e => e.1 == k) with
  | some e => some e.2
  | none => none

/-- the pairs `(i, j)` in the order of `for i in G.keys(): for j, _ in G[i]:` -/
def edgePairs (G : Graph) : List (Int × Int) :=
  G.flatMap (fun e => e.2.map (fun a => (e.1, a.1)))

/-- body of the initialisation loop: `flow[(i,j)] = 0; flow[(j,i)] = 0;` and the reverse edge `(i, 0)` is
appended to `G_f[j]` iff `G_f[j]` has no entry for `i` yet -/
def initStep (st : Graph × FlowDict) (i j : Int) : Except String (Graph × FlowDict) :=
  let fl := dset (dset st.2 (i, j) 0) (j, i) 0
  match adj? st.1 j with
  | none => .error "KeyError"
  | some l =>
    if l.all (fun e => e.1 != i) then .ok (setKey st.1 j (l ++ [(i, 0)]), fl) else .ok (st.1, fl)

def initLoop : List (Int × Int) → Graph × FlowDict → Except String (Graph × FlowDict)
  | [], st => .ok st
  | e :: es, st =>
    match initStep st e.1 e.2 with
    | .error err => .error err
    | .ok st' => initLoop es st'

/-- the residual graph `G_f` and the all-zero `flow` dict as `ford_fulkerson` builds them -/
def mkResidual (G : Graph) : Except String (Graph × FlowDict) := initLoop (edgePairs G) (G, [])

/-- `visited[v] = 1` -/
def mark (v : Int) (vis : List Int) : List Int := if vis.contains v then vis else v :: vis
/-- `visited[v] = 0` -/
def unmark (v : Int) (vis : List Int) : List Int := vis.filter (fun x => x != v)

/-- the `for (v, c) in candidates` loop of `dfs_path`, threading `best_path`, `best_capacity`, `visited`;
`rec` is the recursive call. -/
def dfsCands (rec : Int → List Int → Option (List Int × Int) × List Int) (current : Int) :
    List (Int × Int) → Option (List Int) → Int → List Int → Option (List Int) × Int × List Int
  | [], bp, bc, vis => (bp, bc, vis)
  | (v, c) :: rest, bp, bc, vis =>
    if vis.contains v then dfsCands rec current rest bp bc vis
    else if 0 < c then
      match rec v (mark v vis) with
      | (none, vis') => dfsCands rec current rest bp bc vis'
      | (some (path, capacity), vis') =>
        if bc < min capacity c then
          dfsCands rec current rest (some (current :: path)) (min capacity c) vis'
        else dfsCands rec current rest bp bc vis'
    else dfsCands rec current rest bp bc vis

/-- `dfs_path(G_f, current, sink, visited)`: the answer and the mutated `visited` -/
def dfsPath (Gf : Graph) (sink : Int) : Nat → Int → List Int → Option (List Int × Int) × List Int
  | 0, _, vis => (none, vis)
  | fuel + 1, current, vis =>
    if current == sink then (some ([current], maxsize), unmark current vis)
    else
      match dfsCands (dfsPath Gf sink fuel) current (adj Gf current) none 0 vis with
      | (some p, bc, vis') => (some (p, bc), unmark current vis')
      | (none, _, vis') => (none, vis')

/-- `d[k] += x` (`KeyError` when missing) -/
def dadd (d : FlowDict) (k : Int × Int) (x : Int) : Except String FlowDict :=
  match dget? d k with
  | none => .error "KeyError"
  | some y => .ok (dset d k (y + x))

/-- `G_f[u] = [(w, c_f + x) if w == v else (w, c_f) for (w, c_f) in G_f[u]]` -/
def bump (Gf : Graph) (u v x : Int) : Except String Graph :=
  match adj? Gf u with
  | none => .error "KeyError"
  | some l => .ok (setKey Gf u (l.map (fun e => if e.1 == v then (e.1, e.2 + x) else e)))

/-- body of `for i in range(len(path) - 1)` -/
def augStep (st : Graph × FlowDict) (u v c : Int) : Except String (Graph × FlowDict) :=
  match dadd st.2 (u, v) c with
  | .error e => .error e
  | .ok fl1 =>
    match dadd fl1 (v, u) (-c) with
    | .error e => .error e
    | .ok fl2 =>
      match bump st.1 u v (-c) with
      | .error e => .error e
      | .ok g1 =>
        match bump g1 v u c with
        | .error e => .error e
        | .ok g2 => .ok (g2, fl2)

def augment : List Int → Int → Graph × FlowDict → Except String (Graph × FlowDict)
  | u :: v :: rest, c, st =>
    match augStep st u v c with
    | .error e => .error e
    | .ok st' => augment (v :: rest) c st'
  | _, _, st => .ok st

/-- `reachable_vertices`: worklist search; the frontier is a Python `set` popped in arbitrary order, here a
stack (the resulting SET does not depend on the order).  `none` = out of fuel. -/
def reachLoop (Gf : Graph) : Nat → List Int → List Int → Option (List Int)
  | 0, _, _ => none
  | _ + 1, [], ans => some ans
  | k + 1, x :: fr, ans =>
    if ans.contains x then reachLoop Gf k fr ans
    else reachLoop Gf k (((adj Gf x).filter (fun e => decide (0 < e.2))).map (·.1) ++ fr) (x :: ans)

/-- sufficient fuel for `reachLoop`: every vertex is expanded once and pushes at most its degree -/
def reachFuel (Gf : Graph) : Nat := 2 + (Gf.map (fun e => e.2.length + 1)).sum

def reachable (Gf : Graph) (s : Int) : Option (List Int) := reachLoop Gf (reachFuel Gf) [s] []

/-- `flow_final`: `for i in G.keys(): for j, _ in G[i]: flow_final[(i, j)] = flow[(i, j)]` -/
def finalFlow (fl : FlowDict) : List (Int × Int) → FlowDict → Except String FlowDict
  | [], acc => .ok acc
  | k :: ks, acc =>
    match dget? fl k with
    | none => .error "KeyError"
    | some x => finalFlow fl ks (dset acc k x)

/-- `visited = {i: (1 if i == s else 0) for i in G_f.keys()}` -/
def vis0 (Gf : Graph) (s : Int) : List Int := if (keys Gf).contains s then [s] else []

abbrev Result := FlowDict × List Int × List (List Int × Int)

/-- the `while True` loop; `acc` collects the augmenting paths with their reported capacities -/
def ffLoop (G : Graph) (s t : Int) : Nat → Graph × FlowDict → List (List Int × Int) → Except String Result
  | 0, _, _ => .error "fuel"
  | k + 1, st, acc =>
    if s != t && (adj? st.1 s).isNone then .error "KeyError" else
    match (dfsPath st.1 t (st.1.length + 1) s (vis0 st.1 s)).1 with
    | none =>
      match finalFlow st.2 (edgePairs G) [] with
      | .error e => .error e
      | .ok ff =>
        match reachable st.1 s with
        | none => .error "fuel"
        | some S => .ok (ff, S, acc)
    | some (path, c) =>
      match augment path c st with
      | .error e => .error e
      | .ok st' => ffLoop G s t k st' (acc ++ [(path, c)])

/-- `ford_fulkerson(G, s, t)` with a bound on the number of rounds: the final flow dict in the code's order,
the source side of the cut (in discovery order of the worklist; a set in the code), and the sequence of
augmenting paths with the capacities `dfs_path` reported for them. -/
def ffDfs (G : Graph) (s t : Int) (rounds : Nat) : Except String Result :=
  match mkResidual G with
  | .error e => .error e
  | .ok st => ffLoop G s t rounds st []

/-- the dict the harness builds from a network line: `{v: [] for v in verts}` then `G[u].append((v, c))` -/
def netToG (N : Net) : Graph :=
  N.verts.map (fun u => (u, (N.edges.filter (fun e => e.1 == u)).map (fun e => (e.2.1, (e.2.2 : Int)))))

/-- the flow dict in the triple format of `Sck/Model/FlowCert.lean` -/
def toTriples (fl : FlowDict) : List (Int × Int × Int) := fl.map (fun e => (e.1.1, e.1.2, e.2))

/-- decidable: every neighbour occurring in the graph is a key (so `visited[v]` never raises `KeyError`) -/
def nbrsKeysB (G : Graph) : Bool := G.all (fun e => e.2.all (fun a => (keys G).contains a.1))

/-- `dfs_path`'s "best capacity" is NOT the best over all simple paths: from `2` the only way on is through
the marked vertex `1`, so `2` answers `None` and STAYS marked, and the wider path `0 → 2 → 1 → 3` (capacity 2)
is never seen; the answer is `([0, 1, 3], 1)`. -/
def exHeur : Graph := [(0, [(1, 1), (2, 2)]), (1, [(3, 3), (2, 2)]), (2, [(1, 2)]), (3, [])]

#eval ffDfs (netToG exNet) 0 3 100
#eval dfsPath exHeur 3 5 0 [0]

end Dfs
