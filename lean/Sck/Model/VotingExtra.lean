import Sck.Model.Voting
import Sck.Model.Stv

/-! Core-only additions to the voting model used to state C10/C11: well-formedness checkers, renaming of
alternatives, the per-alternative score as a function, the positional score as a function of the histogram. -/

namespace Vote

/-- every ballot is a permutation of the ranks `1..m` (a complete strict profile on `m` alternatives) -/
def wfB (P : Profile) (m : Nat) : Bool := P.all (fun row => row.isPerm (List.range' 1 m))

/-- weaker: every ballot has `m` entries, all of them ranks in `1..m` (complete, ties allowed) -/
def rankedB (P : Profile) (m : Nat) : Bool :=
  P.all (fun row => row.length == m && row.all (fun r => decide (1 ≤ r) && decide (r ≤ m)))

/-- `sig` is a permutation of the alternatives `0..m-1` -/
def permB (sig : List Nat) (m : Nat) : Bool := sig.isPerm (List.range m)

/-- renaming: new alternative `a` is old alternative `sig[a]` -/
def renameBallot (sig : List Nat) (row : List Nat) : List Nat := sig.map (fun j => row.getD j 0)

def renameProfile (sig : List Nat) (P : Profile) : Profile := P.map (renameBallot sig)

def renameVals (sig : List Nat) (V : List (List (Option Rat))) : List (List (Option Rat)) :=
  V.map (fun row => sig.map (fun j => row.getD j none))

/-- score of alternative `j` under a positional rule, as a function of the alternative -/
def scoreI (w : Nat → Int) (P : Profile) (j : Nat) : Int := sumI ((col P j).map w)

/-- harmonic score of alternative `j` -/
def scoreH (P : Profile) (j : Nat) : Rat := sumQ ((col P j).map (fun (r : Nat) => (1 : Rat) / ((r : Nat) : Rat)))

/-- positional score summed by rank (`Σ_r count(rank = r) · w r`): a function of the histogram -/
def positionalOfHist (w : Nat → Int) (h : List Nat) : Int :=
  sumI ((List.range h.length).map (fun r => (h.getD r 0 : Int) * w (r + 1)))

/-- the `m`-th harmonic number -/
def harmonicNumber (m : Nat) : Rat := sumQ ((List.range' 1 m).map (fun (r : Nat) => (1 : Rat) / ((r : Nat) : Rat)))

/-- every utility row has exactly `m` entries -/
def valsB (V : List (List (Option Rat))) (m : Nat) : Bool := V.all (fun row => row.length == m)

/-- no elimination tie occurs in the STV run on `P` with `w` remaining alternatives: in every round with at
least two alternatives exactly one alternative has the minimal plurality score -/
def stvNoTie : Nat → List (List Nat) → Nat → Bool
  | 0, _, _ => true
  | fuel + 1, P, w =>
    if w ≤ 1 then true
    else
      match argmins (pluralityScores P w) with
      | [d] => stvNoTie fuel (P.map (fun row => dropRow row d)) (w - 1)
      | _ => false

end Vote
