/-! # Input validation ("glue") of `socialchoicekit` — which arguments does the library reject?

Core-only executable mirror of
* `socialchoicekit/utils.py`: `check_profile`, `check_valuation_profile`, `check_square_matrix`, `check_graph`,
  `check_bipartite_graph`, `check_tie_breaker`;
* the `of` constructors of the 9 profile classes and 4 valuation-profile classes of `profile_utils.py`;
* the parameter checks of `LambdaPRV`, `KARV` (`elicitation_voting.py`), `LambdaTSF` (`elicitation_allocation.py`),
  `DoubleLambdaTSF` (`elicitation_matching.py`), `KApproval` (`deterministic_scoring.py`), `GaleShapley.scf`
  (`deterministic_matching.py`) and `UniformValuationProfileGenerator` (`data_generation.py`).

The model is **dtype-free** on purpose: a 2-D array is its shape `(rows, cols)` plus its entries as exact rationals
(`none` = NaN).  An `int32`, `int64` or `float64` array holding the same numbers is the same model value; the only place
where the dtype is visible to the library (`IntegerValuationProfile.of`) takes it as an explicit Boolean.

Domain of the mirror: numeric arrays whose entries are finite numbers or NaN (no `±inf`, no partial sum overflowing to
`±inf`; `inf + (-inf)` is NaN for `np.sum`, which would trigger the "NaN" branch without any NaN entry).

Every `raise` site has its own error token (`VErr.token`); the token is a function of the exception MESSAGE. -/

namespace Validate

/-- one constructor per distinct exception message -/
inductive VErr where
  /-- `"Profile is not in a recognized data format"` (`check_profile`, `check_valuation_profile`) -/
  | format
  /-- `"Profile must be a two-dimensional array"` (`check_profile`, `check_valuation_profile`) -/
  | dim
  /-- `"Profile cannot contain NaN values"` -/
  | nan
  /-- numpy's own `ValueError("zero-size array to reduction operation fmin which has no identity")` raised by
  `np.nanmin` inside `check_profile` -/
  | empty
  /-- `"Profile must contain exactly integers from 1 to M"` -/
  | range
  /-- `"Valuation profile cannot contain NaN values"` -/
  | vnan
  /-- `"The input array must have integer values"` (`IntegerValuationProfile.of`) -/
  | notint
  /-- `"Matrix is not in a recognized data format"` -/
  | mformat
  /-- `"Matrix must be a two-dimensional array"` -/
  | mdim
  /-- `"Matrix must be square"` -/
  | notsquare
  /-- `"Graph is not in a recognized data format"` -/
  | gformat
  /-- `"Graph must contain integers as keys"` -/
  | keys
  /-- `"Graph must contain lists as values"` -/
  | values
  /-- `"Vertices can only be linked to other vertices"` -/
  | link
  /-- `"Graph is not bipartite"` -/
  | notbip
  /-- `"Supplied X and/or Y are not consistent with the keys of the dictionary"` -/
  | xykeys
  /-- `KeyError` of `G[e]` in `check_bipartite_graph` (proved unreachable: `checkBipartite_ne_keyerror`) -/
  | keyerror
  /-- `"Tie breaker is not recognized"` -/
  | tiebreaker
  /-- `"Invalid lambda"` -/
  | lambda
  /-- `"Invalid k"` -/
  | k
  /-- `"k must be greater than 0"` -/
  | kpos
  /-- `"The resident profile and hospital profile dimensions do not match."` -/
  | dims
  /-- `"Invalid high and/or low value(s)."` -/
  | highlow
  /-- `AssertionError` of the shape asserts in `DoubleLambdaTSF.get_simulated_cardinal_profiles` -/
  | assert
  /-- `"Profile must be a StrictProfile for now"` -/
  | notstrict
  deriving DecidableEq, Repr

def VErr.token : VErr → String
  | .format => "format" | .dim => "dim" | .nan => "nan" | .empty => "empty" | .range => "range"
  | .vnan => "vnan" | .notint => "notint"
  | .mformat => "mformat" | .mdim => "mdim" | .notsquare => "notsquare"
  | .gformat => "gformat" | .keys => "keys" | .values => "values" | .link => "link"
  | .notbip => "notbip" | .xykeys => "xykeys" | .keyerror => "keyerror"
  | .tiebreaker => "tiebreaker"
  | .lambda => "lambda" | .k => "k" | .kpos => "kpos" | .dims => "dims" | .highlow => "highlow"
  | .assert => "assert" | .notstrict => "notstrict"

def VErr.all : List VErr :=
  [.format, .dim, .nan, .empty, .range, .vnan, .notint, .mformat, .mdim, .notsquare, .gformat, .keys, .values, .link,
   .notbip, .xykeys, .keyerror, .tiebreaker, .lambda, .k, .kpos, .dims, .highlow, .assert, .notstrict]

/-- the verdict of a validator: `.ok ()` = returns normally, `.error e` = raises -/
abbrev Verdict := Except VErr Unit

/-! ## Arguments -/

/-- an array entry: an exact number or NaN (`none`) -/
abbrev Entry := Option Rat

/-- a 2-D numeric array: explicit shape (so `0 × m` and `n × 0` arrays exist) and row-major data -/
structure Mat where
  rows : Nat
  cols : Nat
  data : List (List Entry)

/-- `profile.flatten()` -/
def Mat.entries (M : Mat) : List Entry := M.data.flatten

/-- the data agree with the declared shape -/
def Mat.wfB (M : Mat) : Bool := M.data.length == M.rows && M.data.all (fun r => r.length == M.cols)

/-- what is passed where an `np.ndarray` is expected: something that is not an `ndarray` (a list, `None`, …) or an
`ndarray` with `np.ndim = ndim`.  The payload `M` is only meaningful (and only looked at) when `ndim = 2`. -/
inductive Arg where
  | notArray
  | array (ndim : Nat) (M : Mat)

/-! ## numpy reductions -/

/-- NaN-propagating addition -/
def addE : Entry → Entry → Entry
  | some a, some b => some (a + b)
  | _, _ => none

/-- `np.sum(a)`: NaN as soon as one entry is NaN; `0` on an empty array -/
def sumE (l : List Entry) : Entry := l.foldl addE (some 0)

/-- the non-NaN entries -/
def nonNaN (l : List Entry) : List Rat := l.filterMap id

def minR : List Rat → Option Rat
  | [] => none
  | x :: xs =>
    match minR xs with
    | none => some x
    | some y => some (if x ≤ y then x else y)

def maxR : List Rat → Option Rat
  | [] => none
  | x :: xs =>
    match maxR xs with
    | none => some x
    | some y => some (if y ≤ x then x else y)

/-- `np.nanmin(a)`: raises on a zero-size array; NaN (`none`, with a `RuntimeWarning`) on an all-NaN array;
otherwise the smallest non-NaN entry -/
def nanMin (l : List Entry) : Except VErr Entry :=
  if l.isEmpty then .error .empty else .ok (minR (nonNaN l))

/-- `np.nanmax(a)` -/
def nanMax (l : List Entry) : Except VErr Entry :=
  if l.isEmpty then .error .empty else .ok (maxR (nonNaN l))

/-- `x == y` on numpy scalars: false when either side is NaN -/
def eqE : Entry → Rat → Bool
  | some a, b => a == b
  | none, _ => false

/-! ## `check_profile`, `check_valuation_profile`, `check_square_matrix` -/

/-- `utils.check_profile(profile, is_complete, is_strict)` — the real control flow, line by line:
```
if isinstance(profile, np.ndarray):
  if np.ndim(profile) == 2:
    if is_complete and np.isnan(np.sum(profile)): raise "cannot contain NaN"
    if np.nanmin(profile) == 1:
      if not is_complete or not is_strict or np.nanmax(profile) == profile.shape[1]: return
    raise "must contain exactly integers from 1 to M"
  raise "must be a two-dimensional array"
raise "not in a recognized data format"
``` -/
def checkProfile (arg : Arg) (isComplete isStrict : Bool) : Verdict :=
  match arg with
  | .notArray => .error .format
  | .array ndim M =>
    if ndim != 2 then .error .dim
    else if isComplete && (sumE M.entries).isNone then .error .nan
    else
      match nanMin M.entries with
      | .error e => .error e
      | .ok mn =>
        if eqE mn 1 then
          if !isComplete || !isStrict then .ok ()
          else
            match nanMax M.entries with
            | .error e => .error e
            | .ok mx => if eqE mx (M.cols : Rat) then .ok () else .error .range
        else .error .range

/-- `utils.check_valuation_profile(valuation_profile, is_complete)` -/
def checkValuation (arg : Arg) (isComplete : Bool) : Verdict :=
  match arg with
  | .notArray => .error .format
  | .array ndim M =>
    if ndim != 2 then .error .dim
    else if isComplete && (sumE M.entries).isNone then .error .vnan
    else .ok ()

/-- `utils.check_square_matrix(matrix)` -/
def checkSquareMatrix (arg : Arg) : Verdict :=
  match arg with
  | .notArray => .error .mformat
  | .array ndim M =>
    if ndim != 2 then .error .mdim
    else if M.rows == M.cols then .ok ()
    else .error .notsquare

/-! ## the `of` constructors -/

/-- the 9 ordinal profile classes and the 4 valuation profile classes of `profile_utils.py` -/
inductive Cls where
  | profile | strictProfile | profileWithTies | completeProfile | incompleteProfile
  | strictCompleteProfile | strictIncompleteProfile | completeProfileWithTies | incompleteProfileWithTies
  | valuationProfile | completeValuationProfile | incompleteValuationProfile | integerValuationProfile
  deriving DecidableEq, Repr

def Cls.all : List Cls :=
  [.profile, .strictProfile, .profileWithTies, .completeProfile, .incompleteProfile,
   .strictCompleteProfile, .strictIncompleteProfile, .completeProfileWithTies, .incompleteProfileWithTies,
   .valuationProfile, .completeValuationProfile, .incompleteValuationProfile, .integerValuationProfile]

/-- the Python class name -/
def Cls.name : Cls → String
  | .profile => "Profile" | .strictProfile => "StrictProfile" | .profileWithTies => "ProfileWithTies"
  | .completeProfile => "CompleteProfile" | .incompleteProfile => "IncompleteProfile"
  | .strictCompleteProfile => "StrictCompleteProfile" | .strictIncompleteProfile => "StrictIncompleteProfile"
  | .completeProfileWithTies => "CompleteProfileWithTies" | .incompleteProfileWithTies => "IncompleteProfileWithTies"
  | .valuationProfile => "ValuationProfile" | .completeValuationProfile => "CompleteValuationProfile"
  | .incompleteValuationProfile => "IncompleteValuationProfile" | .integerValuationProfile => "IntegerValuationProfile"

/-- `<Cls>.of(arr)`, one line per `of` method with the literal flags written in the source.
`isInt` = `np.issubdtype(arr.dtype, np.integer)`; only `IntegerValuationProfile.of` looks at it.
(The `arr.view(Cls)` that follows a successful check cannot fail on an `ndarray`.) -/
def profileOf (cls : Cls) (isInt : Bool) (arg : Arg) : Verdict :=
  match cls with
  | .profile => checkProfile arg false false
  | .strictProfile => checkProfile arg false true
  | .profileWithTies => checkProfile arg false false
  | .completeProfile => checkProfile arg true false
  | .incompleteProfile => checkProfile arg false false
  | .strictCompleteProfile => checkProfile arg true true
  | .strictIncompleteProfile => checkProfile arg false true
  | .completeProfileWithTies => checkProfile arg true false
  | .incompleteProfileWithTies => checkProfile arg false false
  | .valuationProfile => checkValuation arg false
  | .completeValuationProfile => checkValuation arg true
  | .incompleteValuationProfile => checkValuation arg false
  | .integerValuationProfile =>
    match checkValuation arg false with
    | .error e => .error e
    | .ok () => if isInt then .ok () else .error .notint

/-! The flags as the class hierarchy / the docstrings define them (NOT read off the `of` methods):
"complete" = inherits from `CompleteProfile` / `CompleteValuationProfile`, "strict" = inherits from `StrictProfile`. -/

def Cls.isOrdinal : Cls → Bool
  | .valuationProfile | .completeValuationProfile | .incompleteValuationProfile | .integerValuationProfile => false
  | _ => true

def Cls.isComplete : Cls → Bool
  | .completeProfile | .strictCompleteProfile | .completeProfileWithTies => true
  | .completeValuationProfile | .integerValuationProfile => true
  | _ => false

def Cls.isStrict : Cls → Bool
  | .strictProfile | .strictCompleteProfile | .strictIncompleteProfile => true
  | _ => false

/-! ## embedding the rank matrices of the rule models -/

/-- a complete rank matrix (`List (List Nat)`, as used by the voting / Irving models) as an argument with `m` columns -/
def matOfNat (m : Nat) (P : List (List Nat)) : Mat :=
  { rows := P.length, cols := m, data := P.map (fun row => row.map (fun (r : Nat) => some (r : Rat))) }

/-- an incomplete rank matrix (`none` = NaN, as used by the Gale–Shapley / RSD models) -/
def matOfOptNat (m : Nat) (P : List (List (Option Nat))) : Mat :=
  { rows := P.length, cols := m, data := P.map (fun row => row.map (fun x => x.map (fun (r : Nat) => (r : Rat)))) }

def argOfNat (m : Nat) (P : List (List Nat)) : Arg := .array 2 (matOfNat m P)

def argOfOptNat (m : Nat) (P : List (List (Option Nat))) : Arg := .array 2 (matOfOptNat m P)

/-- a row of a strict incomplete profile: its non-NaN entries are a permutation of `1..k` (`k` = their number) -/
def strictIncRowB (row : List (Option Nat)) : Bool :=
  (row.filterMap id).isPerm (List.range' 1 (row.filterMap id).length)

/-! ## `check_graph`, `check_bipartite_graph` -/

/-- what is passed where a `Dict[int, List[int]]` is expected.  A dictionary is its list of items in insertion order;
a key that is not an `int` is `none` (a `bool` key IS an `int` for `isinstance`), a value that is not a `list` is `none`.
The elements of the lists are integers (or anything hashing/comparing equal to one). -/
inductive GArg where
  | notDict
  | dict (items : List (Option Int × Option (List Int)))

def GArg.keys : List (Option Int × Option (List Int)) → List Int
  | items => items.filterMap (fun e => e.1)

/-- `utils.check_graph(G)`.  NOTE the `return` inside `for l in G.values()`: only the FIRST value is examined, and an
empty dictionary falls out of the loop into `raise ValueError("Graph must contain lists as values")`. -/
def checkGraph (G : GArg) : Verdict :=
  match G with
  | .notDict => .error .gformat
  | .dict items =>
    if items.all (fun e => e.1.isSome) then
      if items.all (fun e => e.2.isSome) then
        match items with
        | [] => .error .values
        | (_, none) :: _ => .error .values
        | (_, some l) :: _ =>
          if l.all (fun i => (GArg.keys items).contains i) then .ok () else .error .link
      else .error .values
    else .error .keys

/-- `G[e]` -/
def GArg.lookup (items : List (Option Int × Option (List Int))) (e : Int) : Option (List Int) :=
  match items.find? (fun it => it.1 == some e) with
  | some (_, some l) => some l
  | _ => none

/-- `set(A) == set(B)` -/
def sameSet (A B : List Int) : Bool := A.all (fun a => B.contains a) && B.all (fun b => A.contains b)

/-- `utils.check_bipartite_graph(G, X, Y)`.  Both `for` loops `return` or `raise` in their FIRST iteration, so only the
first vertex of `X` is examined (the first vertex of `Y` when `X` is empty). -/
def checkBipartite (G : GArg) (X Y : List Int) : Verdict :=
  match checkGraph G with
  | .error e => .error e
  | .ok () =>
    match G with
    | .notDict => .error .gformat
    | .dict items =>
      if sameSet (X ++ Y) (GArg.keys items) then
        match X with
        | e :: _ =>
          if Y.contains e then .error .notbip
          else
            match GArg.lookup items e with
            | none => .error .keyerror
            | some l => if l.all (fun y => Y.contains y) then .ok () else .error .notbip
        | [] =>
          match Y with
          | e :: _ =>
            match GArg.lookup items e with
            | none => .error .keyerror
            | some l => if l.all (fun x => X.contains x) then .ok () else .error .notbip
          | [] => .error .xykeys
      else .error .xykeys

/-! ## `check_tie_breaker` -/

/-- `utils.check_tie_breaker(tie_breaker, include_accept)` (a non-string argument behaves like an unknown string) -/
def checkTieBreaker (tb : String) (includeAccept : Bool) : Verdict :=
  if tb == "random" || tb == "first" then .ok ()
  else if includeAccept && tb == "accept" then .ok ()
  else .error .tiebreaker

/-! ## parameter checks of the rules: constructor time and call time -/

/-- `LambdaPRV.__init__(lambda_, tie_breaker)`: the tie breaker is checked FIRST (`super().__init__`) -/
def prvCtor (tb : String) (lam : Int) : Verdict :=
  match checkTieBreaker tb true with
  | .error e => .error e
  | .ok () => if lam < 1 then .error .lambda else .ok ()

/-- `LambdaPRV.score(profile)` with `m = profile.shape[1]` -/
def prvCall (lam : Int) (m : Nat) : Verdict := if lam > (m : Int) then .error .lambda else .ok ()

/-- `KARV.__init__(k, tie_breaker)` -/
def karvCtor (tb : String) (k : Int) : Verdict :=
  match checkTieBreaker tb true with
  | .error e => .error e
  | .ok () => if k < 1 then .error .k else .ok ()

/-- `KARV.get_simulated_cardinal_profile(profile)` with `m = profile.shape[1]` -/
def karvCall (k : Int) (m : Nat) : Verdict := if k > (m : Int) then .error .k else .ok ()

/-- `LambdaTSF.__init__(lambda_)` -/
def tsfCtor (lam : Int) : Verdict := if lam < 1 then .error .lambda else .ok ()

/-- `LambdaTSF.get_simulated_cardinal_profile(profile)`: `m = profile.shape[1]`, `isStrictInst = isinstance(profile,
StrictProfile)`; the bound on `lambda_` is tested BEFORE the class of the profile -/
def tsfCall (lam : Int) (m : Nat) (isStrictInst : Bool) : Verdict :=
  if lam > (m : Int) then .error .lambda
  else if !isStrictInst then .error .notstrict
  else .ok ()

/-- `DoubleLambdaTSF.__init__(lambda_1, lambda_2)` -/
def dtsfCtor (l1 l2 : Int) : Verdict := if l1 < 1 || l2 < 1 then .error .lambda else .ok ()

/-- `DoubleLambdaTSF.get_simulated_cardinal_profiles(profile_1, profile_2)`: `profile_1.shape = (r1, c1)`,
`profile_2.shape = (r2, c2)`; `n = r1`; two shape `assert`s, then the bound -/
def dtsfCall (l1 l2 : Int) (r1 c1 r2 c2 : Nat) : Verdict :=
  let n := r1
  if !(c1 == n) then .error .assert
  else if !(r2 == n && c2 == n) then .error .assert
  else if l1 > (n : Int) || l2 > (n : Int) then .error .lambda
  else .ok ()

/-- `KApproval.__init__(k, tie_breaker)`: `k` is checked BEFORE the tie breaker; no bound at call time -/
def kApprovalCtor (k : Int) (tb : String) : Verdict :=
  if k < 1 then .error .kpos else checkTieBreaker tb true

/-- `GaleShapley.scf(resident_profile, hospital_profile, c)`: shapes `(n, m)` and `(hr, hc)` -/
def gsCall (n m hr hc : Nat) : Verdict := if n != hc || m != hr then .error .dims else .ok ()

/-- `a < b` on Python floats: false when either side is NaN -/
def ltE : Entry → Entry → Bool
  | some a, some b => decide (a < b)
  | _, _ => false

/-- `UniformValuationProfileGenerator.__init__(high, low)`: `if high < low or low < 0: raise` (NaN bounds pass) -/
def uniformCtor (high low : Entry) : Verdict :=
  if ltE high low || ltE low (some 0) then .error .highlow else .ok ()

def Verdict.isOk : Verdict → Bool
  | .ok _ => true
  | .error _ => false

/-- constructor AND call go through -/
def prvParamOk (lam : Int) (m : Nat) : Bool := (prvCtor "first" lam).isOk && (prvCall lam m).isOk
def karvParamOk (k : Int) (m : Nat) : Bool := (karvCtor "first" k).isOk && (karvCall k m).isOk
def tsfParamOk (lam : Int) (m : Nat) : Bool := (tsfCtor lam).isOk && (tsfCall lam m true).isOk
def dtsfParamOk (l1 l2 : Int) (n : Nat) : Bool := (dtsfCtor l1 l2).isOk && (dtsfCall l1 l2 n n n n).isOk
def kApprovalParamOk (k : Int) : Bool := (kApprovalCtor k "first").isOk
def gsDimsOk (n m hr hc : Nat) : Bool := (gsCall n m hr hc).isOk
def uniformParamOk (high low : Entry) : Bool := (uniformCtor high low).isOk

/-- constructor, then call: the first failure with its stage (`false` = constructor, `true` = call) -/
def twoStage (ctor call : Verdict) : Except (Bool × VErr) Unit :=
  match ctor with
  | .error e => .error (false, e)
  | .ok () =>
    match call with
    | .error e => .error (true, e)
    | .ok () => .ok ()

end Validate
