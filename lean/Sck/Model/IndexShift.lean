import Sck.Model.Rsd
import Sck.Model.DA

/-! Core-only: the index-convention wrappers of the non-voting rule families (C13).

Every rule class stores `self.index_fixer = 0 if zero_indexed else 1` and adds it to the labels it REPORTS
(never to the labels it computes with).  The core models work 0-based; these wrappers are the public output. -/

/-- `RandomSerialDictatorship.scf`: `allocation[agent] = int(item) + self.index_fixer`; an unallocated agent
stays NaN (`none`) -/
def rsdPublic (fixer : Nat) (P : List (List (Option Nat))) (order : List Nat) : List (Option Nat) :=
  (rsd P order).map (Option.map (· + fixer))

/-- an allocation `σ` (agent ↦ item) reported as `σ + self.index_fixer`: the eating lottery
(`np.argmax(chosen_permutation, axis=1) + self.index_fixer`), `MaximumWeightMatching.scf`
(`col_ind + self.index_fixer`), λ-TSF and Match-TwoQueries -/
def allocPublic (fixer : Nat) (sigma : List Nat) : List Nat := sigma.map (· + fixer)

/-- a matching reported as pairs `(i + self.index_fixer, j + self.index_fixer)`: Gale–Shapley (this is what
`galeShapley` applies to its result), Irving, two-sided λ-TSF -/
def pairsPublic (fixer : Nat) (M : List (Nat × Nat)) : List (Nat × Nat) :=
  M.map (fun e => (e.1 + fixer, e.2 + fixer))

#eval rsdPublic 1 [[some 1, some 2, some 3], [some 1, none, some 2], [some 2, some 1, none]] [1, 0, 2]
#eval allocPublic 1 [0, 2, 1]
#eval pairsPublic 1 [(0, 1), (2, 0)]
