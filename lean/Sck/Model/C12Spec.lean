import Sck.Model.Voting
import Sck.Model.Stv

/-! Core-only, executable *specification-side* definitions for property C12 (Copeland and STV follow
their definitions): well-formedness of a strict complete profile, and the textbook STV bookkeeping
on the ORIGINAL ballots (`firstAmong`, `firstCount`).  Nothing here is used by the models. -/

namespace C12

/-- every ballot is a permutation of `1..m` (decidable, executable) -/
def wfB (P : List (List Nat)) (m : Nat) : Bool :=
  P.all (fun row => row.isPerm (List.range' 1 m))

/-- the alternative of `alive` with the smallest rank on the ballot `row`
(the earliest one in `alive` on ties; strict ballots have no ties) -/
def firstAmong (row : List Nat) : List Nat → Nat
  | [] => 0
  | [a] => a
  | a :: as => if row.getD (firstAmong row as) 0 < row.getD a 0 then firstAmong row as else a

/-- number of voters of the ORIGINAL profile whose best alternative among `alive` is `x` -/
def firstCount (P0 : List (List Nat)) (alive : List Nat) (x : Nat) : Nat :=
  (P0.filter (fun row => firstAmong row alive == x)).length

/-- the state of the elimination loop after the drops `ds` (positions in the current label list) -/
def dropsP (ds : List Nat) (P : List (List Nat)) : List (List Nat) :=
  ds.foldl (fun P d => P.map (fun row => dropRow row d)) P

def dropsL (ds : List Nat) (labels : List Nat) : List Nat :=
  ds.foldl (fun l d => l.eraseIdx d) labels

end C12
