import Sck.Model.SMCert
import Sck.Model.Hall

/-! Core-only executable model of the last stage of `Irving.scf` (C03/C17): eliminating rotations from a
stable matching given as a list of pairs, the weight of a rotation, the value of a matching, and the
"ordinal profile induced by the valuations" test.  (Rotation discovery and the min-cut are NOT modelled;
their output is validated by the certificate checker `smCertOk`.) -/

namespace Irving

abbrev Pair := Nat × Nat

/-- `rotation[i]` (totalised; every use below is at an index `< rho.length`) -/
def rotAt (rho : List Pair) (i : Nat) : Pair := rho.getD i (0, 0)

/-- the pair that replaces `rotation[i]`: `(rotation[i][0], rotation[(i + 1) % r][1])` -/
def rotNew (rho : List Pair) (i : Nat) : Pair := ((rotAt rho i).1, (rotAt rho ((i + 1) % rho.length)).2)

/-- inner loop of `eliminate_rotations` for one rotation, over the index list `is` (= `range(r)`):
`if pair not in M: raise ValueError`, `M[M.index(pair)] = (rotation[i][0], rotation[(i+1) % r][1])` -/
def elimLoop (rho : List Pair) : List Nat → List Pair → Option (List Pair)
  | [], M => some M
  | i :: is, M =>
    if M.contains (rotAt rho i) then elimLoop rho is (M.set (M.idxOf (rotAt rho i)) (rotNew rho i))
    else none

/-- eliminate ONE rotation (`none` = the code's `ValueError`) -/
def eliminate (M : List Pair) (rho : List Pair) : Option (List Pair) :=
  elimLoop rho (List.range rho.length) M

/-- outer loop of `eliminate_rotations`: rotations in the order given -/
def eliminateAll (M : List Pair) : List (List Pair) → Option (List Pair)
  | [] => some M
  | rho :: rest =>
    match eliminate M rho with
    | none => none
    | some M' => eliminateAll M' rest

/-- `rotation_weight`: two `ans += …` per index, then `ans *= -1`.
Python's `(i - 1) % r` is `(i + r - 1) % r` on naturals. -/
def rotationWeight (V1 V2 : List (List Int)) (rho : List Pair) : Int :=
  let r := rho.length
  ((List.range r).foldl (fun ans i =>
      (ans + (intOf V1 (rotAt rho i).1 (rotAt rho i).2 - intOf V1 (rotAt rho i).1 (rotAt rho ((i + 1) % r)).2))
        + (intOf V2 (rotAt rho i).2 (rotAt rho i).1 - intOf V2 (rotAt rho i).2 (rotAt rho ((i + r - 1) % r)).1)) 0) * -1

/-- `stable_matching_value` -/
def matchingValue (V1 V2 : List (List Int)) (M : List Pair) : Int :=
  M.foldl (fun ans p => ans + (intOf V1 p.1 p.2 + intOf V2 p.2 p.1)) 0

/-- the rank matrix `P` (smaller = better) is the strict ranking induced by the valuations `V`
(larger = better) on `0..n-1`: `P a b < P a b' ↔ V a b' < V a b`, and each row of `V` is injective on
`0..n-1` ("each agent's valuations are distinct"; then the rows of `P` are injective too). -/
def inducedB (n : Nat) (P : List (List Nat)) (V : List (List Int)) : Bool :=
  allLt n (fun a => allLt n (fun b => allLt n (fun b' =>
    decide (rankOf P a b < rankOf P a b') == decide (intOf V a b' < intOf V a b)))) &&
  allLt n (fun a => allLt n (fun b => allLt n (fun b' => b == b' || intOf V a b != intOf V a b')))

/-- list-of-pairs form of a matching given as a list `mu` (`Irving.scf` returns pairs in the men's order of
the Gale–Shapley output; the harness sorts them by man) -/
def pairsOf (mu : List Nat) : List Pair := (List.range mu.length).map (fun a => (a, mu.getD a mu.length))

/-- no blocking pair, for a matching given as a list of pairs: there are no `(m, w), (m', w') ∈ M` such that
`m` prefers `w'` to `w` and `w'` prefers `m` to `m'` -/
def stablePairsB (P1 P2 : List (List Nat)) (M : List Pair) : Bool :=
  M.all (fun p => M.all (fun q =>
    !(decide (rankOf P1 p.1 q.2 < rankOf P1 p.1 p.2) && decide (rankOf P2 q.2 p.1 < rankOf P2 q.2 q.1))))

/-- `rho = (m_0, w_0), …, (m_{r-1}, w_{r-1})` is exposed in `M` (Irving–Leather–Gusfield): the men are distinct,
every `(m_i, w_i)` is in `M`, `w_{i+1}` prefers `m_i` to her partner `m_{i+1}`, and no woman strictly between
`w_i` and `w_{i+1}` in `m_i`'s list prefers `m_i` to her partner -/
def exposedB (P1 P2 : List (List Nat)) (M rho : List Pair) : Bool :=
  nodupB (rho.map Prod.fst) &&
  (List.range rho.length).all (fun i =>
    M.contains (rotAt rho i) &&
    decide (rankOf P2 (rotNew rho i).2 (rotAt rho i).1
              < rankOf P2 (rotNew rho i).2 (rotAt rho ((i + 1) % rho.length)).1) &&
    M.all (fun q =>
      !(decide (rankOf P1 (rotAt rho i).1 (rotAt rho i).2 < rankOf P1 (rotAt rho i).1 q.2) &&
        decide (rankOf P1 (rotAt rho i).1 q.2 < rankOf P1 (rotAt rho i).1 (rotNew rho i).2) &&
        decide (rankOf P2 q.2 (rotAt rho i).1 < rankOf P2 q.2 q.1))))

/-- every rotation of the sequence is exposed in the matching obtained by eliminating the previous ones -/
def exposedAllB (P1 P2 : List (List Nat)) (M : List Pair) : List (List Pair) → Bool
  | [] => true
  | rho :: rest =>
    exposedB P1 P2 M rho &&
    match eliminate M rho with
    | none => false
    | some M' => exposedAllB P1 P2 M' rest

/-- all men and women of `M` are `< n` -/
def boundedB (n : Nat) (M : List Pair) : Bool := M.all (fun p => decide (p.1 < n) && decide (p.2 < n))

/-! ### closure step of `find_maximum_weight_closed_subset`
`succs` is `P_prime` (keys `0..k-1` in insertion order, `succs[rho]` = heads of the edges leaving `rho`); the set
is a list (Python's set; its iteration ORDER is not modelled). -/

/-- one `for rho in P_prime.keys()` pass; the flag is `continue_loop` -/
def closurePass (succs : List (List Nat)) : List Nat → List Nat → Bool → List Nat × Bool
  | [], S, ch => (S, ch)
  | rho :: keys, S, ch =>
    if S.contains rho then closurePass succs keys S ch
    else if (succs.getD rho []).any (fun x => S.contains x) then closurePass succs keys (rho :: S) true
    else closurePass succs keys S ch

/-- the `while True` loop with explicit fuel (`closureOf_closed` shows that `k + 1` passes are enough) -/
def closureLoop (succs : List (List Nat)) : Nat → List Nat → List Nat
  | 0, S => S
  | fuel + 1, S =>
    let r := closurePass succs (List.range succs.length) S false
    if r.2 then closureLoop succs fuel r.1 else r.1

/-- all rotations from which a rotation of `S` can be reached in `P'` (predecessor closure) -/
def closureOf (succs : List (List Nat)) (S : List Nat) : List Nat := closureLoop succs (succs.length + 1) S

end Irving

-- rotation ((0,0),(1,1)) on the man-optimal matching of the 2x2 "opposite preferences" instance
#eval Irving.eliminate [(0, 0), (1, 1)] [(0, 0), (1, 1)]
#eval Irving.eliminate [(1, 1), (0, 0)] [(0, 0), (1, 1)]
#eval Irving.eliminate [(0, 1), (1, 0)] [(0, 0), (1, 1)]
#eval Irving.rotationWeight [[0,0],[0,0]] [[0,5],[5,0]] [(0, 0), (1, 1)]
#eval Irving.matchingValue [[0,0],[0,0]] [[0,5],[5,0]] [(0, 1), (1, 0)]
#eval Irving.exposedB [[1,2],[2,1]] [[2,1],[1,2]] [(0, 0), (1, 1)] [(0, 0), (1, 1)]
#eval Irving.stablePairsB [[1,2],[2,1]] [[2,1],[1,2]] [(0, 1), (1, 0)]
#eval Irving.closureOf [[1],[2],[],[2],[]] [2]
