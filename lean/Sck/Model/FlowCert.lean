import Sck.Model.Flow

/-! Core-only executable certificate checker for the output of the IMPLEMENTATION's `ford_fulkerson` (C08):
the reported flow dict (one entry per edge of the input network; a pair of opposite edges is reported as net
flows) and the reported source side of the cut.  Soundness is proved in `Sck/Proofs/FlowCert.lean`. -/

/-- decidable well-formedness of a network: vertices duplicate-free, source and sink are distinct vertices,
every edge joins two vertices, no two edges have the same (tail, head).  Self loops are allowed. -/
def netWfB (N : Net) : Bool :=
  decide N.verts.Nodup && N.verts.contains N.s && N.verts.contains N.t && !(N.s == N.t) &&
  N.edges.all (fun e => N.verts.contains e.1 && N.verts.contains e.2.1) &&
  decide (N.edges.map (fun e => (e.1, e.2.1))).Nodup

/-- the value stored under key `(u, v)` in the reported dict, if any (first hit) -/
def entryVal (fl : List (Int × Int × Int)) (u v : Int) : Option Int :=
  match fl.find? (fun e => e.1 == u && e.2.1 == v) with
  | some e => some e.2.2
  | none => none

/-- the net flow function induced by the reported dict -/
def flowOf (fl : List (Int × Int × Int)) : Flow := fun u v =>
  match entryVal fl u v with
  | some x => x
  | none =>
    match entryVal fl v u with
    | some y => -y
    | none => 0

def sumInt (l : List Int) : Int := l.sum

/-- value of `f`: net flow out of the source -/
def valueL (N : Net) (f : Flow) : Int := sumInt (N.verts.map (fun v => f N.s v))

/-- capacity of the cut whose source side is `S`: sum over `u ∈ S`, `v ∉ S` (both vertices) of `cap u v` -/
def cutCapL (N : Net) (S : List Int) : Int :=
  sumInt ((N.verts.filter (fun u => S.contains u)).map (fun u =>
    sumInt ((N.verts.filter (fun v => !S.contains v)).map (fun v => N.cap u v))))

/-- the keys of the dict are exactly the edges of the network, each once -/
def entriesExactB (N : Net) (fl : List (Int × Int × Int)) : Bool :=
  let ks := fl.map (fun e => (e.1, e.2.1))
  let es := N.edges.map (fun e => (e.1, e.2.1))
  decide ks.Nodup && ks.all (fun k => es.contains k) && es.all (fun k => ks.contains k)

/-- opposite entries carry opposite values (for `u = v` this forces the value `0`) -/
def skewB (fl : List (Int × Int × Int)) : Bool :=
  fl.all (fun e => match entryVal fl e.2.1 e.1 with
    | some y => e.2.2 == -y
    | none => true)

/-- capacity constraint of the net flow, in both directions of every entry -/
def capB (N : Net) (fl : List (Int × Int × Int)) : Bool :=
  fl.all (fun e => decide (e.2.2 ≤ N.cap e.1 e.2.1) && decide (-e.2.2 ≤ N.cap e.2.1 e.1))

def conserveB (N : Net) (f : Flow) : Bool :=
  N.verts.all (fun u => u == N.s || u == N.t || sumInt (N.verts.map (fun v => f u v)) == 0)

/-- certificate check of a reported (flow dict, source side of the cut) against the network -/
def flowCutOk (N : Net) (fl : List (Int × Int × Int)) (S : List Int) : Bool :=
  entriesExactB N fl && skewB fl && capB N fl && conserveB N (flowOf fl) &&
  S.contains N.s && !S.contains N.t && S.all (fun v => N.verts.contains v) &&
  valueL N (flowOf fl) == cutCapL N S

/-- fuel that suffices for `ff`: one more than the capacity of the cut `{s}` -/
def ffFuel (N : Net) : Nat :=
  1 + ((N.verts.filter (fun v => !(v == N.s))).map (fun v => (N.cap N.s v).toNat)).sum

def exFl : List (Int × Int × Int) := [(0,1,3),(0,2,2),(1,2,1),(1,3,2),(2,3,3),(3,0,0)]
#eval (netWfB exNet, flowCutOk exNet exFl [0], ffFuel exNet)
/-- an opposite pair reported as net flows -/
def exNet2 : Net := { verts := [5, -1, -2], edges := [(-1,5,2),(5,-1,7),(5,-2,1),(-2,5,4)], s := -1, t := -2 }
#eval (netWfB exNet2, flowCutOk exNet2 [(5,-1,-1),(-1,5,1),(-2,5,-1),(5,-2,1)] [-1, 5])
