import Sck.Model.Profile

/-! Core-only executable model of `preflib_utils.py` (the five `preflib_*_to_profile`) — property C19.

An abstract PrefLib instance is the list `orders` of `(order, multiplicity)` in the iteration order of
`instance.orders` / `instance.preferences` (orders pairwise distinct, as in preflibtools where the
multiplicity is a dict keyed by the order), the number `m` of alternatives and the `data_type` string.
An `order` is a list of indifference classes of 1-based alternative numbers. -/

inductive PrefKind where
  | soc | soi | toc | toi | cat
  deriving DecidableEq, Repr

/-- tie-breaker; for `random` the outcome of every `np.random.shuffle` is given:
`sh i c cls` = the shuffled class `c` (0-based) of order `i` (0-based), as 1-based alternative numbers -/
inductive TieMode where
  | accept
  | first
  | random (sh : Nat → Nat → List Nat → List Nat)

structure PrefInst where
  m : Nat
  dataType : String
  orders : List (List (List Nat) × Nat)

/-- the `data_type` string the converter insists on (all five converters check it; the categorical one
rejects anything but `"cat"`) -/
def PrefKind.expected : PrefKind → Option String
  | .soc => some "soc"
  | .soi => some "soi"
  | .toc => some "toc"
  | .toi => some "toi"
  | .cat => some "cat"

/-- initial content of a row: `np.zeros(m, dtype=int)` for soc/toc, `np.full(m, np.nan)` otherwise -/
def PrefKind.init : PrefKind → Option Nat
  | .soc => some 0
  | .toc => some 0
  | _ => none

/-- numpy index of alternative `a`: `a - 1`, and `-1` (alternative 0) wraps to the last position -/
def altIdx (m a : Nat) : Nat := if a == 0 then m - 1 else a - 1

/-- the index `a - 1` is accepted by numpy for an array of length `m` -/
def altInRange (m a : Nat) : Bool := decide (a ≤ m) && decide (1 ≤ m)

/-- the writes of `preference[tied_items] = current_rank` (accept) or
`preference[tied_items] = np.arange(current_rank, current_rank + len)` (otherwise), in execution order;
`arranged` = the class after `np.sort` / the shuffle -/
def classAssigns (m : Nat) (accept : Bool) (cur : Nat) (arranged : List Nat) : List (Nat × Nat) :=
  if accept then arranged.map (fun a => (altIdx m a, cur))
  else arranged.zipIdx.map (fun p => (altIdx m p.1, cur + p.2))

/-- all writes of the loop `for tied_items in order`, `ci` = index of the class, `cur` = `current_rank` -/
def prefAssigns (m : Nat) (accept : Bool) (arr : Nat → List Nat → List Nat) :
    Nat → Nat → List (List Nat) → List (Nat × Nat)
  | _, _, [] => []
  | ci, cur, cls :: rest =>
    let arranged := if accept then cls else arr ci cls
    classAssigns m accept cur arranged ++ prefAssigns m accept arr (ci + 1) (cur + arranged.length) rest

/-- perform the writes on the initial row (a later write to the same index wins, as in numpy) -/
def applyAssigns (row : List (Option Nat)) (ws : List (Nat × Nat)) : List (Option Nat) :=
  ws.foldl (fun r w => r.set w.1 (some w.2)) row

def sortAsc (l : List Nat) : List Nat := l.mergeSort (fun a b => decide (a ≤ b))

/-- how a class is arranged before the write: identity / `np.sort` / the given shuffle of order `i` -/
def TieMode.arr (mode : TieMode) (i : Nat) : Nat → List Nat → List Nat :=
  match mode with
  | .accept => fun _ cls => cls
  | .first => fun _ cls => sortAsc cls
  | .random sh => sh i

def TieMode.isAccept : TieMode → Bool
  | .accept => true
  | _ => false

/-- the row built for one order (no error checks) -/
def prefRow (init : Option Nat) (m : Nat) (mode : TieMode) (i : Nat) (order : List (List Nat)) :
    List (Option Nat) :=
  applyAssigns (List.replicate m init) (prefAssigns m mode.isAccept (mode.arr i) 0 1 order)

/-- `flatten_strict`: the first member of every indifference class -/
def flattenStrict (order : List (List Nat)) : List Nat := order.filterMap List.head?

/-- the row of one order for the given converter, or the Python exception:
* soc/soi go through `flatten_strict` (first member of each class; an empty class is an `IndexError`);
  soc writes `np.arange(1, m+1)` (a flattened order whose length is not `m` is a `ValueError`);
  soi with an empty order indexes with a float array (`IndexError`); the tie-breaker is not used;
* toc/toi: an empty class is an `IndexError` (float index array); the categorical converter skips
  empty classes;
* an alternative number `> m` (or any alternative when `m = 0`) is an `IndexError`. -/
def prefRowE (kind : PrefKind) (mode : TieMode) (m : Nat) (i : Nat) (order : List (List Nat)) :
    Except String (List (Option Nat)) :=
  match kind with
  | .soc | .soi =>
    if order.any List.isEmpty then .error "IndexError: tuple index out of range"
    else
      let flat := flattenStrict order
      if kind == .soc && flat.length != m then .error "ValueError: shape mismatch"
      else if flat.isEmpty then .error "IndexError: arrays used as indices must be of integer type"
      else if !(flat.all (altInRange m)) then .error "IndexError: index out of bounds"
      else .ok (prefRow kind.init m .accept i (flat.map fun a => [a]))
  | .toc | .toi =>
    if order.any List.isEmpty then .error "IndexError: arrays used as indices must be of integer type"
    else if !(order.all fun cls => cls.all (altInRange m)) then .error "IndexError: index out of bounds"
    else .ok (prefRow kind.init m mode i order)
  | .cat =>
    let order' := order.filter (fun cls => !cls.isEmpty)
    if !(order'.all fun cls => cls.all (altInRange m)) then .error "IndexError: index out of bounds"
    else .ok (prefRow kind.init m mode i order')

/-- the loop over the orders: each row appended `multiplicity` times; the first exception aborts -/
def convLoop (kind : PrefKind) (mode : TieMode) (m : Nat) :
    Nat → List (List (List Nat) × Nat) → Except String (List (List (Option Nat)))
  | _, [] => .ok []
  | i, om :: rest =>
    match prefRowE kind mode m i om.1 with
    | .error e => .error e
    | .ok row =>
      match convLoop kind mode m (i + 1) rest with
      | .error e => .error e
      | .ok rows => .ok (List.replicate om.2 row ++ rows)

/-- `preflib_{soc,soi,toc,toi,categorical}_to_profile`. The final `….of(np.array(arr))` validation
(`check_profile`) is not part of this model. -/
def convRows (kind : PrefKind) (mode : TieMode) (inst : PrefInst) :
    Except String (List (List (Option Nat))) :=
  match kind.expected with
  | some t =>
    if inst.dataType != t then .error "ValueError: wrong data type"
    else convLoop kind mode inst.m 0 inst.orders
  | none => convLoop kind mode inst.m 0 inst.orders

/-- rank of the first position of class `ci`: 1 + number of alternatives in earlier classes -/
def classBase (order : List (List Nat)) (ci : Nat) : Nat :=
  1 + ((order.take ci).map List.length).sum

/-- well-formed order: alternatives in `1..m`, none listed twice -/
def orderWFB (m : Nat) (order : List (List Nat)) : Bool :=
  order.flatten.all (fun a => decide (1 ≤ a) && decide (a ≤ m)) &&
  allPairsB (fun a b => a != b) order.flatten

/-- checker for one converted row (`mode`: 0 accept, 1 first, otherwise random): length `m`; the
members of class `ci` hold `classBase` (accept) / `classBase, classBase+1, …` in increasing alternative
number (first) / some arrangement of that block (random); unlisted alternatives are NaN. -/
def prefRowOkB (m : Nat) (order : List (List Nat)) (mode : Nat) (row : List (Option Nat)) : Bool :=
  row.length == m &&
  (order.zipIdx.all fun p =>
    let cls := p.1
    let b := classBase order p.2
    let got := cls.map (fun a => valAt row (a - 1))
    if mode == 0 then got.all (· == some b)
    else if mode == 1 then (sortAsc cls).map (fun a => valAt row (a - 1)) == (List.range' b cls.length).map some
    else got.isPerm ((List.range' b cls.length).map some)) &&
  ((List.range m).all fun j => order.flatten.contains (j + 1) || (valAt row j).isNone)

def exInst : PrefInst := { m := 4, dataType := "toi", orders := [([[2, 3], [1]], 2), ([[4], [1, 3]], 1)] }
#eval convRows .toi .accept exInst
#eval convRows .toi .first exInst
#eval convRows .toi (.random fun _ _ cls => cls.reverse) exInst
#eval convRows .toc .first exInst
#eval convRows .cat .first { exInst with dataType := "cat", orders := [([[2, 3], [], [1]], 2)] }
#eval convRows .cat .first { exInst with orders := [([[2, 3], [], [1]], 2)] }
#eval convRows .soi .first { exInst with dataType := "soi", orders := [([[2], [1]], 2), ([[4]], 1)] }
#eval convRows .soc .first { exInst with dataType := "soc", orders := [([[2], [1]], 2)] }
#eval prefRowOkB 4 [[2, 3], [1]] 2 [some 3, some 2, some 1, none]
