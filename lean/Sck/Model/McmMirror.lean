import Sck.Model.FlowHelpers
import Sck.Model.BvnFull
import Sck.Model.Validate

/-! Core-only executable MIRRORS of the two routines built on top of `ford_fulkerson`:

* `socialchoicekit/flow.py: maximum_cardinality_matching_bipartite`  — `Mirror.mcmMirror` (after the argument check)
  and `Mirror.mcmFull` (with the mirrored `check_bipartite_graph` of `Sck/Model/Validate.lean` in front);
* `socialchoicekit/bistochastic.py: birkhoff_von_neumann`             — `Mirror.bvnMirror`.

In contrast to the ABSTRACT models `mcm` (`Sck/Model/Mcm.lean`) and `bvnFull` (`Sck/Model/BvnFull.lean`), which run the
model's own augmenting-path search `ff`, these run `Dfs.ffDfs`, the line-by-line mirror of the implementation's own
`ford_fulkerson` / `dfs_path` (same residual dict order, same path choice).  Hence the MATCHING (not only its size) and
the DECOMPOSITION (not only its validity) are those of the code, pair by pair and term by term.

Data representation: that of `Sck/Model/FlowHelpers.lean` (`FH.BGraph` = the dict `{u: [v, …]}` in insertion order,
`Dfs.Graph`, `Dfs.FlowDict`).  Python exceptions are `Except String` results carrying the exception's name.

`mcmMirror G X Y`, step by step:
1. `network = convert_bipartite_graph_to_flow_network(G, X, Y)`  = `FH.convert G X Y` (only `G.get(x, [])` of the left
   vertices is read: the directed and the undirected encoding of a graph give the same network);
2. `flow, _ = ford_fulkerson(network, -1, -2)` = `Dfs.ffDfs … (-1) (-2) (|X| + 1)`.  The `while True` loop of the code has
   no bound; the bound `|X| + 1` on the number of rounds is proved sufficient on every valid bipartite graph
   (`C09_mcmMirror_correct`; each round adds one unit of flow and the source has `|X|` unit edges);
3. the read-out loop `for x in X:` — `G[x]` (a `KeyError` if `x` is not a key of `G`: cannot happen after
   `check_bipartite_graph`, which demands `set(X + Y) == set(G.keys())`), skip when the list is empty (the repaired
   version of defect F7), else `matched_y = G[x][np.argmax([flow[(x, y)] for y in G[x]])]` (FIRST maximum) and the pair
   is appended iff `flow[(x, matched_y)] == 1`.

`bvnMirror n X`, over exact rationals.  Differences to the float code, on purpose:
* the stop test `np.all(np.abs(X) < 1e-9)` is "X is the zero matrix" (`isZeroB`);
* `positivity_graph` has an edge iff the entry is `> 0` — that IS what the code tests (no tolerance there);
* the coefficient and the subtraction are exact.
Everything else is the code's: `positivity_graph` (`FH.positivityGraph`, a vertex without an edge is NOT a key),
`check_bipartite_graph(G_X, range(n), range(n, 2n))` (`ValueError` when a row or column has no positive entry),
`mcmMirror`, `z = min X[i, j-n]` over the matched pairs, `P[i, j-n] = 1`, `X -= z * P`.  A permutation matrix `P` is
reported as the list row ↦ column of its 1 (`n` = the row has no 1; only possible when the matching is not perfect,
which never happens in a returned result, see `C06_bvnMirror_ok_balanced`).  Fuel `n*n + 1` for the `while True` loop,
proved sufficient on EVERY square matrix (`C06_bvnMirror_total`): the mirror returns iff the matrix is balanced and
answers `ValueError` otherwise (`C06_bvnMirror_ok_iff`). -/

namespace Mirror

open Dfs (FlowDict dget?)
open FH (BGraph)

/-- `G[x]` on the dict `G` (`none` = `KeyError`) -/
def lookup? (G : BGraph) (x : Int) : Option (List Int) :=
  match G.find? (fun e => e.1 == x) with
  | some e => some e.2
  | none => none

/-- `[flow[(x, y)] for y in l]` (`none` = `KeyError`) -/
def flowVals (fl : FlowDict) (x : Int) : List Int → Option (List Int)
  | [] => some []
  | y :: ys =>
    match dget? fl (x, y) with
    | none => none
    | some v =>
      match flowVals fl x ys with
      | none => none
      | some vs => some (v :: vs)

/-- body of the read-out loop for the left vertex `x`: `.ok none` = nothing appended -/
def emit (G : BGraph) (fl : FlowDict) (x : Int) : Except String (Option (Int × Int)) :=
  match lookup? G x with
  | none => .error "KeyError"
  | some [] => .ok none
  | some (y0 :: ys) =>
    match flowVals fl x (y0 :: ys) with
    | none => .error "KeyError"
    | some vals =>
      match (y0 :: ys)[argmaxFirst vals]? with
      | none => .error "IndexError"
      | some y =>
        match dget? fl (x, y) with
        | none => .error "KeyError"
        | some v => if v = 1 then .ok (some (x, y)) else .ok none

/-- the read-out loop `for x in X:` (the first exception wins) -/
def extract (G : BGraph) (fl : FlowDict) : List Int → Except String (List (Int × Int))
  | [] => .ok []
  | x :: xs =>
    match emit G fl x with
    | .error e => .error e
    | .ok o =>
      match extract G fl xs with
      | .error e => .error e
      | .ok M =>
        match o with
        | some p => .ok (p :: M)
        | none => .ok M

/-- `maximum_cardinality_matching_bipartite(G, X, Y)` AFTER its `check_bipartite_graph(G, X, Y)`:
the list of pairs in the code's order -/
def mcmMirror (G : BGraph) (X Y : List Int) : Except String (List (Int × Int)) :=
  match Dfs.ffDfs (FH.convert G X Y) (-1) (-2) (X.length + 1) with
  | .error e => .error e
  | .ok (fl, _, _) => extract G fl X

/-- the dict `G` as an argument of the validation mirror -/
def toGArg (G : BGraph) : Validate.GArg := .dict (G.map (fun e => (some e.1, some e.2)))

/-- `maximum_cardinality_matching_bipartite(G, X, Y)` including the argument check (every message of
`check_bipartite_graph` / `check_graph` is a `ValueError`) -/
def mcmFull (G : BGraph) (X Y : List Int) : Except String (List (Int × Int)) :=
  match Validate.checkBipartite (toGArg G) X Y with
  | .error .keyerror => .error "KeyError"
  | .error _ => .error "ValueError"
  | .ok () => mcmMirror G X Y

/-- the `while True` loop of `birkhoff_von_neumann`.  `"inf"`: the matching is empty, `z = np.inf` (proved unreachable:
after the key check the graph has an edge) -/
def bvnMirrorAux (n : Nat) : Nat → List (List Rat) → Except String (List (Rat × List Nat))
  | 0, _ => .error "fuel"
  | k + 1, X =>
    if isZeroB X then .ok []
    else
      match FH.positivityGraph X with
      | .error e => .error e
      | .ok g =>
        match mcmFull g (rowVerts n) (colVerts n) with
        | .error e => .error e
        | .ok M =>
          match minList (pairVals n X M) with
          | none => .error "inf"
          | some z =>
            match bvnMirrorAux n k (subPerm X (sigmaOfPairs n M) z) with
            | .ok out => .ok ((z, sigmaOfPairs n M) :: out)
            | .error e => .error e

/-- `birkhoff_von_neumann(X)` for the `n × n` array with the rows `X` (after `check_square_matrix`) -/
def bvnMirror (n : Nat) (X : List (List Rat)) : Except String (List (Rat × List Nat)) :=
  if isSquareB n X then bvnMirrorAux n (n * n + 1) X else .error "notsquare"

/-- the matching routine of the mirror as an oracle for `bvnWith` (`Sck/Model/BvnFull.lean`) -/
def mirrorPairs (n : Nat) (X : List (List Rat)) : Except FFErr (List (Int × Int)) :=
  match FH.positivityGraph X with
  | .error _ => .error .fuel
  | .ok g =>
    match mcmMirror g (rowVerts n) (colVerts n) with
    | .error _ => .error .fuel
    | .ok M => .ok M

/-! Examples.  `exBipG`: the abstract `mcm` finds `[(10, 20), (12, 21)]` as well; `exK22` (the complete bipartite graph on
`{0, 1}` and `{2, 3}`): the mirror's matching DIFFERS from the abstract model's (same size) — in its second round
`dfs_path` walks `-1 → 1 → 2 → 0 → 3 → -2` through the reverse edge `2 → 0`, where the breadth-first search of the
abstract model takes `-1 → 1 → 3 → -2`. -/
def exK22 : BGraph := [(0, [2, 3]), (1, [2, 3]), (2, [0, 1]), (3, [0, 1])]
def exBvn3 : List (List Rat) := [[1/2, 1/4, 1/4], [1/4, 1/2, 1/4], [1/4, 1/4, 1/2]]

#eval mcmMirror exBipG exBipX exBipY
#eval mcmFull exBipG exBipX exBipY
#eval mcmFull [(10, [20]), (11, [20]), (12, [20, 21, 22])] exBipX exBipY
#eval mcmMirror exK22 [0, 1] [2, 3]
#eval mcm [0, 1] [2, 3] (adjOf exK22) 3
#eval bvnMirror 3 [[1/2, 1/2, 0], [1/2, 0, 1/2], [0, 1/2, 1/2]]
#eval bvnMirror 3 exBvn3
#eval bvnFull 3 exBvn3
#eval bvnMirror 2 [[2, 1], [1, 2]]
#eval bvnMirror 2 [[1, 1], [0, 1]]
#eval bvnMirror 2 [[1, 0], [1, 0]]
#eval bvnMirror 2 [[-1, 0], [0, 0]]
#eval bvnMirror 0 []

end Mirror
