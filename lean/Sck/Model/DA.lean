/-! Model (core-only): generic many-to-many deferred acceptance, abstract step system. -/

structure DA where
  plist : Nat → List Nat          -- proposer's acceptable receivers, best first
  rrank : Nat → Nat → Option Nat  -- rrank r p : receiver r's rank of proposer p (smaller = better)
  qp : Nat → Nat
  qr : Nat → Nat

structure St where
  ptr : Nat → Nat
  mu : List (Nat × Nat)            -- (proposer, receiver)

def heldBy (mu : List (Nat × Nat)) (r : Nat) : List Nat :=
  (mu.filter (fun e => e.2 == r)).map (·.1)

def matchesOf (mu : List (Nat × Nat)) (p : Nat) : List Nat :=
  (mu.filter (fun e => e.1 == p)).map (·.2)

/-- rank with unacceptable = 0 is never used: callers only rank acceptable proposers -/
def rk (I : DA) (r p : Nat) : Nat := (I.rrank r p).getD 0

/-- the worst (largest rank) element of a list, ties to the later one -/
def worst (I : DA) (r : Nat) : List Nat → Option Nat
  | [] => none
  | p :: ps => match worst I r ps with
    | none => some p
    | some w => if rk I r w < rk I r p then some p else some w

def setPtr (f : Nat → Nat) (p v : Nat) : Nat → Nat := fun x => if x = p then v else f x

def step (I : DA) (st : St) (p : Nat) : St :=
  match (I.plist p)[st.ptr p]? with
  | none => st
  | some r =>
    let ptr' := setPtr st.ptr p (st.ptr p + 1)
    match I.rrank r p with
    | none => { ptr := ptr', mu := st.mu }
    | some _ =>
      let mu1 := (p, r) :: st.mu
      if (heldBy mu1 r).length ≤ I.qr r then { ptr := ptr', mu := mu1 }
      else match worst I r (heldBy mu1 r) with
        | none => { ptr := ptr', mu := mu1 }
        | some w => { ptr := ptr', mu := mu1.erase (w, r) }


/-- initial state -/
def St.init : St := { ptr := fun _ => 0, mu := [] }

/-- proposer `p` can act: below quota and list not exhausted (the code's status `1`) -/
def active (I : DA) (st : St) (p : Nat) : Bool :=
  decide ((matchesOf st.mu p).length < I.qp p) && decide (st.ptr p < (I.plist p).length)

/-- one round: every proposer active at the start of the round proposes once, in index order -/
def gsRound (I : DA) (np : Nat) (st : St) : St :=
  (List.range np).foldl (fun s p => if active I st p then step I s p else s) st

/-- iterate rounds until nobody is active -/
def gsLoop (I : DA) (np : Nat) : Nat → St → Option St
  | 0, _ => none
  | fuel + 1, st =>
    if (List.range np).any (active I st) then gsLoop I np fuel (gsRound I np st) else some st


def keyOf (row : List (Option Nat)) (j : Nat) : Nat := (row.getD j none).getD 0

def leKey (row : List (Option Nat)) (a b : Nat) : Bool := decide (keyOf row a ≤ keyOf row b)

/-- acceptable positions of a row, sorted by rank: `np.argsort` cut at the first NaN -/
def plistOfRow (row : List (Option Nat)) : List Nat :=
  ((List.range row.length).filter (fun j => (row.getD j none).isSome)).mergeSort (leKey row)


structure HR where
  n : Nat
  m : Nat
  R : List (List (Option Nat))   -- residents' ranks of hospitals (n rows)
  H : List (List (Option Nat))   -- hospitals' ranks of residents (m rows)
  cap : List Nat

def rankAt (M : List (List (Option Nat))) (i j : Nat) : Option Nat := (M.getD i []).getD j none

/-- residents propose (quota 1), hospitals receive (quota = capacity) -/
def daRes (I : HR) : DA where
  plist r := if r < I.n then plistOfRow (I.R.getD r []) else []
  rrank h r := rankAt I.H h r
  qp _ := 1
  qr h := I.cap.getD h 0


def gsRes (I : HR) : Option (List (Nat × Nat)) :=
  (gsLoop (daRes I) I.n (I.n * I.m + 1) St.init).map (·.mu)


/-- hospitals propose (quota = capacity), residents receive (quota 1); pairs are (hospital, resident) -/
def daHosp (I : HR) : DA where
  plist h := if h < I.m then plistOfRow (I.H.getD h []) else []
  rrank r h := rankAt I.R r h
  qp h := I.cap.getD h 0
  qr _ := 1

/-- hospital-oriented deferred acceptance; result as (resident, hospital) pairs -/
def gsHosp (I : HR) : Option (List (Nat × Nat)) :=
  (gsLoop (daHosp I) I.m (I.n * I.m + 1) St.init).map (fun st => st.mu.map (fun e => (e.2, e.1)))

/-- the public rule: orientation flag and index convention (`fixer` = 0 or 1 added to every label) -/
def galeShapley (residentOriented : Bool) (fixer : Nat) (I : HR) : Option (List (Nat × Nat)) :=
  ((if residentOriented then gsRes I else gsHosp I)).map (fun mu => mu.map (fun e => (e.1 + fixer, e.2 + fixer)))
