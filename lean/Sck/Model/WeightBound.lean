import Sck.Model.IrvingAlgo

/-! Core-only executable form of the numeric side condition `IrvingAlgo.WeightBound` of the optimality theorem of the
mirror of `Irving.scf` (C03): run the mirror's stages 1–4 (`maleOptimal`, `shortlists`, `allRotations`), add up the negative
parts `max(-rotation_weight(ρ), 0)` of the weights of all rotations found and compare the total with `sys.maxsize`
(the "infinite" capacity `find_maximum_weight_closed_subset` puts on the precedence edges of the flow network). -/

namespace IrvingAlgo

open Irving (Pair rotationWeight)

/-- `Σ_ρ max(-rotation_weight(ρ), 0)`: the total capacity of the edges `s → ρ` of the flow network -/
def negPartSum (V1 V2 : List (List Int)) (rots : List (List Pair)) : Int :=
  rots.foldl (fun s r => s + max (-(rotationWeight V1 V2 r)) 0) 0

/-- the sum of the negative parts of the weights of the mirror's rotations; `.error` when the male-optimal matching
(`"gs-fuel"`) or the rotations (`"levels-fuel"`) cannot be computed (model-only: out of fuel) -/
def weightBoundSum (n : Nat) (P1 P2 : List (List Nat)) (V1 V2 : List (List Int)) : Except String Int :=
  match maleOptimal n P1 P2 with
  | none => .error "gs-fuel"
  | some M0 =>
    let sl := shortlists n P1 P2 (muOf n M0)
    match allRotations sl.1 sl.2 with
    | none => .error "levels-fuel"
    | some (rots, _) => .ok (negPartSum V1 V2 rots)

/-- the decidable form of `WeightBound`: the sum is below `sys.maxsize` (`true` when the sum cannot be computed, so
that it is equivalent to the ∀-statement `WeightBound`) -/
def weightBoundB (n : Nat) (P1 P2 : List (List Nat)) (V1 V2 : List (List Int)) : Bool :=
  match weightBoundSum n P1 P2 V1 V2 with
  | .error _ => true
  | .ok s => decide (s < (maxsize : Int))

/-- every entry of the matrix has absolute value at most `B` -/
def entriesBoundedB (B : Nat) (V : List (List Int)) : Bool :=
  V.all (fun row => row.all (fun x => decide (x.natAbs ≤ B)))

/-- the input-only sufficient condition for `WeightBound`: entries bounded by `B` and `4 n² B < sys.maxsize` -/
def inputBoundB (n B : Nat) (V1 V2 : List (List Int)) : Bool :=
  entriesBoundedB B V1 && entriesBoundedB B V2 && decide (4 * n * n * B < maxsize)

end IrvingAlgo

-- the instance of `Sck/Props/C03Algo.lean`: rotation weights +15 and -12
#eval IrvingAlgo.weightBoundSum 3 [[1,2,3],[3,1,2],[2,3,1]] [[3,1,2],[2,3,1],[1,2,3]] [[0,0,0],[0,0,0],[0,0,0]] [[0,1,5],[5,0,1],[1,5,0]]
#eval IrvingAlgo.weightBoundB 3 [[1,2,3],[3,1,2],[2,3,1]] [[3,1,2],[2,3,1],[1,2,3]] [[0,0,0],[0,0,0],[0,0,0]] [[0,1,5],[5,0,1],[1,5,0]]
