import Sck.Model.Cert

/-! Core-only executable optimality-certificate checker for stable matchings (C03/C17). -/

def rankOf (P : List (List Nat)) (i j : Nat) : Nat := (P.getD i []).getD j 0
def intOf (A : List (List Int)) (i j : Nat) : Int := (A.getD i []).getD j 0
def ratOf (A : List (List Rat)) (i j : Nat) : Rat := (A.getD i []).getD j 0

def sumRange (n : Nat) (f : Nat → Rat) : Rat := (List.range n).foldl (fun acc i => acc + f i) 0

/-- does x_{ab} occur in the stability inequality of the pair (i, j)? -/
def occursB (P1 P2 : List (List Nat)) (a b i j : Nat) : Bool :=
  (a == i && decide (rankOf P1 a b ≤ rankOf P1 a j)) ||
  (b == j && a != i && decide (rankOf P2 b a < rankOf P2 b i))

def weightOf (V1 V2 : List (List Int)) (a b : Nat) : Rat := ((intOf V1 a b + intOf V2 b a : Int) : Rat)

/-- no blocking pair: for all a b, not (a prefers b to mu a and b prefers a to inv b) -/
def stableB (n : Nat) (P1 P2 : List (List Nat)) (mu inv : List Nat) : Bool :=
  allLt n (fun a => allLt n (fun b =>
    !(decide (rankOf P1 a b < rankOf P1 a (mu.getD a n)) && decide (rankOf P2 b a < rankOf P2 b (inv.getD b n)))))

/-- rows of P2 are injective on 0..n-1 (strict preferences) -/
def injRowsB (n : Nat) (P : List (List Nat)) : Bool :=
  allLt n (fun b => allLt n (fun a => allLt n (fun a' => a == a' || rankOf P b a != rankOf P b a')))

def smCertOk (n : Nat) (P1 P2 : List (List Nat)) (V1 V2 : List (List Int)) (mu inv : List Nat)
    (alpha beta : List Rat) (y : List (List Rat)) : Bool :=
  isPermWith n mu inv && injRowsB n P2 && stableB n P1 P2 mu inv &&
  allLt n (fun i => allLt n (fun j => decide (0 ≤ ratOf y i j))) &&
  allLt n (fun a => allLt n (fun b =>
    decide (weightOf V1 V2 a b ≤ alpha.getD a 0 + beta.getD b 0 -
      sumRange n (fun i => sumRange n (fun j => if occursB P1 P2 a b i j then ratOf y i j else 0))))) &&
  decide (sumRange n (fun a => weightOf V1 V2 a (mu.getD a n)) =
    sumRange n (fun a => alpha.getD a 0) + sumRange n (fun b => beta.getD b 0) -
      sumRange n (fun i => sumRange n (fun j => ratOf y i j)))

-- the 2x2 "opposite preferences" instance: two stable matchings; weights favour the woman-optimal one
#eval smCertOk 2 [[1,2],[2,1]] [[2,1],[1,2]] [[0,0],[0,0]] [[0,5],[5,0]] [1,0] [1,0] [5, 5] [0, 0] [[0,0],[0,0]]
