import Sck.Model.DA
import Sck.Model.Flow
import Sck.Model.FlowCert
import Sck.Model.Irving

/-! Core-only executable mirror of `Irving.scf` (`socialchoicekit/deterministic_matching.py`), stage by stage
(C03).  Everything is 0-indexed except the rank matrices `P1 P2`, which carry the ranks `1..n` as the user
supplies them (the Python subtracts 1 where it uses a rank as an index; so does `rk0`).

Conventions
* Python dicts keyed by `0..n-1` are lists; dicts keyed by pairs are association lists with Python's
  "update in place or append" semantics (`dictSet`, `dictGet?`).
* Python index/key errors that cannot occur on the outputs of the previous stages are totalised with a default
  (each place is marked `-- raises in Python`); `irving` itself re-checks at run time everything its soundness
  theorem needs, so no theorem depends on these defaults.
* `np.argsort` of a row of a strict complete profile (a permutation of `1..n`) is the inverse permutation; it is
  modelled by `rankedRow` (position of rank `k+1`), which coincides with `argsort` exactly on such rows
  (`irving` rejects every other input with `.error "profile"`; see `wfB`). -/

namespace IrvingAlgo

open Irving (Pair rotAt rotationWeight closureOf eliminateAll exposedAllB stablePairsB boundedB)

/-! ### dicts keyed by pairs -/

/-- `d[k] = v` -/
def dictSet {κ β : Type} [BEq κ] : List (κ × β) → κ → β → List (κ × β)
  | [], k, v => [(k, v)]
  | (k', v') :: rest, k, v => if k' == k then (k', v) :: rest else (k', v') :: dictSet rest k v

/-- `d.get(k)` -/
def dictGet? {κ β : Type} [BEq κ] (d : List (κ × β)) (k : κ) : Option β := (d.find? (fun e => e.1 == k)).map (·.2)

/-! ### stage 1: the male-optimal stable matching (`GaleShapley(resident_oriented=True)`, unit capacities) -/

/-- the HR instance handed to Gale–Shapley: men = residents, women = hospitals, capacities `np.ones(n)`.
(`gsRes` only compares ranks, so the raw ranks `1..n` are passed.) -/
def hrOf (n : Nat) (P1 P2 : List (List Nat)) : HR :=
  { n := n, m := n, R := P1.map (fun r => r.map some), H := P2.map (fun r => r.map some),
    cap := List.replicate n 1 }

/-- `stable_matching`, in the order in which `GaleShapley.scf` emits it: `for hospital in range(m): for … in
hospital_waiting_lists[hospital]` (one entry per waiting list here, so the heap order is immaterial). -/
def maleOptimal (n : Nat) (P1 P2 : List (List Nat)) : Option (List Pair) :=
  (gsRes (hrOf n P1 P2)).map (fun mu => (List.range n).flatMap (fun w => mu.filter (fun e => e.2 == w)))

/-- the matching as a list `mu`: `mu[i]` = woman of man `i` (`n` if he has none) -/
def muOf (n : Nat) (M : List Pair) : List Nat :=
  (List.range n).map (fun i => ((M.find? (fun e => e.1 == i)).map (·.2)).getD n)

/-! ### stage 2: `find_initial_preference_lists` -/

/-- `np.argsort(profile - 1)[row]` for a permutation row: entry `k` is the position holding rank `k + 1` -/
def rankedRow (n : Nat) (row : List Nat) : List Nat := (List.range n).map (fun k => row.idxOf (k + 1))

/-- `(profile - 1)[i, j]` -/
def rk0 (P : List (List Nat)) (i j : Nat) : Nat := rankOf P i j - 1

/-- men's lists cut before the matched woman, women's lists cut after the matched man, then the two
mutual-membership filters (the second one against the NEW men's lists), in the code's order.
`mu[i]` = woman of man `i`; the man of woman `j` is `mu.idxOf j`. -/
def shortlists (n : Nat) (P1 P2 : List (List Nat)) (mu : List Nat) : List (List Nat) × List (List Nat) :=
  let pl1 := (List.range n).map (fun i => (rankedRow n (P1.getD i [])).drop (rk0 P1 i (mu.getD i n)))
  let pl2 := (List.range n).map (fun j => (rankedRow n (P2.getD j [])).take (rk0 P2 j (mu.idxOf j) + 1))
  let new1 := (List.range n).map (fun i => (pl1.getD i []).filter (fun j => (pl2.getD j []).contains i))
  let new2 := (List.range n).map (fun j => (pl2.getD j []).filter (fun i => (new1.getD i []).contains j))
  (new1, new2)

/-! ### stage 3: `find_rotations` -/

/-- `G[i]`: at most one out-edge, to the last man on the list of the second woman of man `i` -/
def outEdge (l1 l2 : List (List Nat)) (i : Nat) : Option Nat :=
  match l1.getD i [] with
  | _ :: j :: _ =>
    let i' := ((l2.getD j []).getLast?).getD 0   -- raises in Python (IndexError) if her list is empty
    if i != i' then some i' else none
  | _ => none

/-- `while not visited[current_node]: …` (at most `n` nodes get visited, so fuel `n + 1` suffices) -/
def walk (l1 l2 : List (List Nat)) : Nat → List Bool → Nat → List Pair → List Bool × Nat × List Pair
  | 0, vis, cur, cyc => (vis, cur, cyc)
  | fuel + 1, vis, cur, cyc =>
    if vis.getD cur true then (vis, cur, cyc)     -- raises in Python (IndexError) if `cur ≥ n`
    else
      let vis := vis.set cur true
      match outEdge l1 l2 cur with
      | none => (vis, cur, cyc)
      | some nxt => walk l1 l2 fuel vis nxt (cyc ++ [(cur, (l1.getD cur []).headD 0)])

/-- one iteration of `while start_point < n` for an unvisited start point -/
def rotStep (l1 l2 : List (List Nat)) (st : List Bool × List (List Pair)) (start : Nat) :
    List Bool × List (List Pair) :=
  if st.1.getD start true then st
  else
    let r := walk l1 l2 (l1.length + 1) st.1 start []
    let cur := r.2.1
    let cyc := r.2.2
    match l1.getD cur [] with
    | [] => (r.1, st.2)
    | w :: _ => if cyc.contains (cur, w) then (r.1, st.2 ++ [cyc.drop (cyc.idxOf (cur, w))]) else (r.1, st.2)

/-- `find_rotations`: the rotations exposed in the current lists, in the code's discovery order -/
def findRotations (l1 l2 : List (List Nat)) : List (List Pair) :=
  ((List.range l1.length).foldl (rotStep l1 l2) (List.replicate l1.length false, [])).2

/-! ### stage 4: `find_all_rotations_and_eliminations` -/

structure LvSt where
  l1 : List (List Nat)
  l2 : List (List Nat)
  pm2 : List (List Bool)          -- `preference_matrix_2[(w, m)]` (absent key = `false`)
  elim : List (Pair × Nat)        -- `eliminating_rotations_of_pair[(m, w)]`
  cnt : Nat                       -- `current_rotation + 1`

/-- the body of `for i in range(r)` for rotation number `idx`: scan `w_i`'s list from the end down to
`m_{i-1}`, deleting the men met on the way -/
def truncStep (rho : List Pair) (idx : Nat) (st : LvSt) (i : Nat) : LvSt :=
  let r := rho.length
  let mprev := (rotAt rho ((i + r - 1) % r)).1
  let w := (rotAt rho i).2
  let rev := (st.l2.getD w []).reverse
  let dropped := rev.takeWhile (fun m => m != mprev)
  let rest := rev.dropWhile (fun m => m != mprev)
  { st with
    l2 := if rest.isEmpty then st.l2 else st.l2.set w rest.reverse   -- `[:k + 1]`; untouched if never found
    pm2 := dropped.foldl (fun pm m => pm.set w ((pm.getD w []).set m false)) st.pm2
    elim := dropped.foldl (fun e m => dictSet e (m, w) idx) st.elim }

/-- `for rotation in rotations: current_rotation += 1; for i in range(r): …` -/
def elimRot (st : LvSt) (rho : List Pair) : LvSt :=
  let st' := (List.range rho.length).foldl (truncStep rho st.cnt) st
  { st' with cnt := st.cnt + 1 }

/-- the two `while True` loops on man `i`'s list: drop the leading women who deleted him; keep the first
element and drop the following women who deleted him, up to the next valid one -/
def menUpdate (pm2 : List (List Bool)) (i : Nat) (L : List Nat) : List Nat :=
  match L.dropWhile (fun j => !((pm2.getD j []).getD i false)) with
  | [] => []
  | a :: t => a :: t.dropWhile (fun j => !((pm2.getD j []).getD i false))

/-- the level loop; `none` = out of fuel -/
def levelLoop : Nat → LvSt → List (List Pair) → Option (List (List Pair) × List (Pair × Nat))
  | 0, _, _ => none
  | fuel + 1, st, ans =>
    let rots := findRotations st.l1 st.l2
    if rots.isEmpty then some (ans, st.elim)
    else
      let st1 := rots.foldl elimRot st
      let l1' := (List.range st1.l1.length).map (fun i => menUpdate st1.pm2 i (st1.l1.getD i []))
      levelLoop fuel { st1 with l1 := l1' } (ans ++ rots)

/-- `find_all_rotations_and_eliminations`: all rotations in discovery order and the map
`eliminating_rotations_of_pair` (insertion order) -/
def allRotations (l1 l2 : List (List Nat)) : Option (List (List Pair) × List (Pair × Nat)) :=
  let n := l1.length
  let pm2 := (List.range n).map (fun j => (List.range n).map (fun i => (l2.getD j []).contains i))
  levelLoop (n * n + 1) { l1 := l1, l2 := l2, pm2 := pm2, elim := [], cnt := 0 } []

/-! ### stage 5: `construct_sparse_rotation_poset_graph` -/

/-- `rotation_of_pair` -/
def rotOfPair (rots : List (List Pair)) : List (Pair × Nat) :=
  rots.zipIdx.foldl (fun d ri => ri.1.foldl (fun d p => dictSet d p ri.2) d) []

/-- `if rho not in P_prime[pi]: P_prime[pi].append(rho)` -/
def addEdge (G : List (List Nat)) (pi rho : Nat) : List (List Nat) :=
  if (G.getD pi []).contains rho then G else G.set pi (G.getD pi [] ++ [rho])

/-- the nested `while j … while j_prime …` loops for man `m`, as ONE pass over his list `L`: `cur = none` is the
outer loop looking for a pair `(m, w)` that is in a rotation; `cur = some (w, rho)` is the inner loop for that
pair (rule 1 ends it and restarts it from `w'`, because the outer loop resumes with `j = j_prime`). -/
def scanMan (rots : List (List Pair)) (rop elim : List (Pair × Nat)) (m : Nat) (L : List Nat) :
    Option (Nat × Nat) → List Nat → List (List Nat) → List (List Nat)
  | _, [], G => G
  | none, w :: rest, G =>
    match dictGet? rop (m, w) with
    | none => scanMan rots rop elim m L none rest G
    | some rho => scanMan rots rop elim m L (some (w, rho)) rest G
  | some (w, rho), w' :: rest, G =>
    match dictGet? rop (m, w') with
    | some rho' => scanMan rots rop elim m L (some (w', rho')) rest (addEdge G rho rho')
    | none =>
      match dictGet? elim (m, w') with
      | some pi =>
        let rot := rots.getD rho []
        let wnext := (rotAt rot ((rot.idxOf (m, w) + 1) % rot.length)).2
        -- `np.where(...)[0][0]` raises in Python (IndexError) if `wnext` is not on the list
        if L.idxOf w' < L.idxOf wnext then scanMan rots rop elim m L (some (w, rho)) rest (addEdge G pi rho)
        else scanMan rots rop elim m L (some (w, rho)) rest G
      | none => scanMan rots rop elim m L (some (w, rho)) rest G

/-- `P_prime` as adjacency lists (`P_prime[pi]` in insertion order) -/
def posetGraph (rots : List (List Pair)) (l1 : List (List Nat)) (elim : List (Pair × Nat)) : List (List Nat) :=
  let rop := rotOfPair rots
  (List.range l1.length).foldl (fun G m => scanMan rots rop elim m (l1.getD m []) none (l1.getD m []) G)
    (List.replicate rots.length [])

/-! ### stage 6: `find_maximum_weight_closed_subset` -/

/-- `sys.maxsize` -/
def maxsize : Nat := 9223372036854775807

/-- the flow network: `s = -1`, `t = -2`, nodes `0..k-1`; `s → pi` with capacity `-w` for the negative
rotations, `pi → rho` with capacity `sys.maxsize` for the edges of `P'`, `pi → t` with capacity `w` for the
positive ones (dict order: `network[-1]`, `network[-2]`, then `network[pi]`). -/
def closedNet (succs : List (List Nat)) (ws : List Int) : Net :=
  let k := succs.length
  { verts := (-1 : Int) :: (-2 : Int) :: (List.range k).map Int.ofNat
    edges :=
      ((List.range k).filter (fun pi => decide (ws.getD pi 0 < 0))).map
          (fun pi => ((-1 : Int), Int.ofNat pi, (-(ws.getD pi 0)).toNat)) ++
      (List.range k).flatMap (fun pi =>
        (succs.getD pi []).map (fun rho => (Int.ofNat pi, Int.ofNat rho, maxsize)) ++
        (if 0 < ws.getD pi 0 then [(Int.ofNat pi, (-2 : Int), (ws.getD pi 0).toNat)] else []))
    s := -1
    t := -2 }

/-- the positive rotations that are not on the source side of the cut -/
def positivesOff (k : Nat) (ws : List Int) (S : List Int) : List Nat :=
  (List.range k).filter (fun pi => decide (0 < ws.getD pi 0) && !S.contains (Int.ofNat pi))

/-- `find_maximum_weight_closed_subset` (the set as a list; Python's set order is not modelled) -/
def closedSubset (succs : List (List Nat)) (rots : List (List Pair)) (V1 V2 : List (List Int)) :
    Except FFErr (List Nat) :=
  let ws := rots.map (rotationWeight V1 V2)
  let N := closedNet succs ws
  match ff N (ffFuel N) with
  | .error e => .error e
  | .ok (_, S) => .ok (closureOf succs (positivesOff succs.length ws S))

/-! ### stage 7: `Irving.scf` -/

def insNat (a : Nat) : List Nat → List Nat
  | [] => [a]
  | b :: bs => if a ≤ b then a :: b :: bs else b :: insNat a bs

/-- `sorted(…)` -/
def sortNat (l : List Nat) : List Nat := l.foldr insNat []

/-- a row of a strict complete profile: `n` distinct ranks in `1..n` (i.e. a permutation of `1..n`) -/
def permRowB (n : Nat) (row : List Nat) : Bool :=
  row.length == n && row.all (fun r => decide (1 ≤ r) && decide (r ≤ n)) && nodupB row

/-- the precondition of C03: `P1`, `P2` are `n × n` strict complete profiles, `V1`, `V2` are `n × n`.
NOTE: this is what the docstrings of `StrictCompleteProfile` / `check_profile(is_complete, is_strict)` promise; the
real `check_profile` only tests `min == 1` and `max == n` over the whole array, so the Python accepts (and runs
on) some arrays that are rejected here with `.error "profile"`. -/
def wfB (n : Nat) (P1 P2 : List (List Nat)) (V1 V2 : List (List Int)) : Bool :=
  P1.length == n && P2.length == n && V1.length == n && V2.length == n &&
  P1.all (permRowB n) && P2.all (permRowB n) &&
  V1.all (fun r => r.length == n) && V2.all (fun r => r.length == n)

/-- everything up to the choice of the rotations: the male-optimal matching (in the code's order) and
`rotations_to_eliminate` -/
def irvingPlan (n : Nat) (P1 P2 : List (List Nat)) (V1 V2 : List (List Int)) :
    Except String (List Pair × List (List Pair)) :=
  if !wfB n P1 P2 V1 V2 then .error "profile"
  else match maleOptimal n P1 P2 with
  | none => .error "gs-fuel"
  | some M0 =>
    -- the three `assert`s after Gale–Shapley
    if !(M0.length == n && nodupB (M0.map Prod.fst) && nodupB (M0.map Prod.snd)) then .error "assert"
    else
      let sl := shortlists n P1 P2 (muOf n M0)
      match allRotations sl.1 sl.2 with
      | none => .error "levels-fuel"
      | some (rots, elim) =>
        match closedSubset (posetGraph rots sl.1 elim) rots V1 V2 with
        | .error _ => .error "flow"
        | .ok C => .ok (M0, (sortNat C).map (fun i => rots.getD i []))

/-- `Irving.scf(…, zero_indexed=True)` WITHOUT the run-time checks: `eliminate_rotations` raises `ValueError`
(`.error "not-exposed"`) exactly when a pair of a rotation is missing -/
def irvingRaw (n : Nat) (P1 P2 : List (List Nat)) (V1 V2 : List (List Int)) : Except String (List Pair) :=
  match irvingPlan n P1 P2 V1 V2 with
  | .error e => .error e
  | .ok (M0, rots) =>
    match eliminateAll M0 rots with
    | none => .error "not-exposed"
    | some M => .ok M

/-- `Irving.scf(…, zero_indexed=True)` with run-time checks of what the unproved stages hand over: the
male-optimal matching is bounded and stable, the men's preferences are strict, and every chosen rotation is
exposed when its turn comes.  (`ok` answers coincide with `irvingRaw`.) -/
def irving (n : Nat) (P1 P2 : List (List Nat)) (V1 V2 : List (List Int)) : Except String (List Pair) :=
  match irvingPlan n P1 P2 V1 V2 with
  | .error e => .error e
  | .ok (M0, rots) =>
    if !(injRowsB n P1 && boundedB n M0 && stablePairsB P1 P2 M0) then .error "check-matching"
    else if !exposedAllB P1 P2 M0 rots then .error "check-exposed"
    else match eliminateAll M0 rots with
      | none => .error "not-exposed"
      | some M => .ok M

end IrvingAlgo

-- 3×3 Latin square: P1[i][(i+k)%n] = k+1, P2[i][(i+1+k)%n] = k+1
#eval IrvingAlgo.maleOptimal 3 [[1,2,3],[3,1,2],[2,3,1]] [[3,1,2],[2,3,1],[1,2,3]]
#eval IrvingAlgo.shortlists 3 [[1,2,3],[3,1,2],[2,3,1]] [[3,1,2],[2,3,1],[1,2,3]] [0,1,2]
#eval IrvingAlgo.allRotations [[0,1,2],[1,2,0],[2,0,1]] [[1,2,0],[2,0,1],[0,1,2]]
#eval IrvingAlgo.irving 3 [[1,2,3],[3,1,2],[2,3,1]] [[3,1,2],[2,3,1],[1,2,3]] [[3,2,1],[1,3,2],[2,1,3]] [[1,3,2],[2,1,3],[3,2,1]]
#eval IrvingAlgo.irving 2 [[1,2],[2,1]] [[2,1],[1,2]] [[0,0],[0,0]] [[0,5],[5,0]]
