import Sck.Model.Cert

/-! Core-only executable infeasibility-certificate checker for C04: a Hall violator.
`S` is a set of agents (rows) whose joint neighbourhood (items acceptable to at least one of them)
is smaller than `S` itself; then no one-to-one assignment of acceptable pairs exists. -/

/-- items `j < n` acceptable (non-`none`) to at least one agent of `S` -/
def hallNbrs (n : Nat) (w : List (List (Option Rat))) (S : List Nat) : List Nat :=
  (List.range n).filter (fun j => S.any (fun i => (entry w i j).isSome))

/-- executable duplicate-freeness test -/
def nodupB : List Nat → Bool
  | [] => true
  | x :: xs => !(xs.contains x) && nodupB xs

/-- Hall-violator certificate: `S` duplicate-free, all members `< n`, and `|N(S)| < |S|` -/
def hallCertOk (n : Nat) (w : List (List (Option Rat))) (S : List Nat) : Bool :=
  nodupB S && S.all (fun i => decide (i < n)) && decide ((hallNbrs n w S).length < S.length)

-- agents 0 and 1 both accept only item 0
#eval hallCertOk 3 [[some 3, none, none], [some 2, none, none], [some 1, some 1, some 1]] [0, 1]
