import Sck.Model.Cert

/-! Core-only executable model of the Birkhoff–von Neumann loop (C06 / C07 lottery).

The harness REPLAYS the permutations chosen by `bistochastic.birkhoff_von_neumann` (its perfect matchings
of the positivity graph) in exact rational arithmetic: every permutation must lie in the support of the
current residual matrix, the coefficient is the minimum entry along it, and it is subtracted. -/

def sumList (l : List Rat) : Rat := l.sum

/-- entry `(i, j)` of a matrix given as a list of rows (only used inside the checked `n × n` shape) -/
def matGet (X : List (List Rat)) (i j : Nat) : Rat := (X.getD i []).getD j 0

/-- `X` has exactly `n` rows of length `n` -/
def isSquareB (n : Nat) (X : List (List Rat)) : Bool :=
  X.length == n && X.all (fun r => r.length == n)

/-- candidate inverse of a permutation list: position of `j` in `sigma` -/
def invOfList (n : Nat) (sigma : List Nat) : List Nat := (List.range n).map (fun j => sigma.idxOf j)

/-- `sigma` (as the list `sigma[i]` = column of row `i`) is a permutation of `0..n-1` -/
def isPermB (n : Nat) (sigma : List Nat) : Bool := isPermWith n sigma (invOfList n sigma)

/-- the entries `X[i][sigma i]` -/
def diagVals (X : List (List Rat)) (sigma : List Nat) : List Rat :=
  List.zipWith (fun row c => row.getD c 0) X sigma

/-- minimum of a non-empty list (`none` on the empty list) -/
def minList : List Rat → Option Rat
  | [] => none
  | v :: vs => some (vs.foldl (fun a b => if b < a then b else a) v)

/-- `X − z · P_sigma` -/
def subPerm (X : List (List Rat)) (sigma : List Nat) (z : Rat) : List (List Rat) :=
  List.zipWith (fun row c => row.modify c (fun x => x - z)) X sigma

/-- the replay loop on a matrix already known to be `n × n` -/
def bvnReplayAux (n : Nat) : List (List Rat) → List (List Nat) → Except String (List Rat × List (List Rat))
  | X, [] => .ok ([], X)
  | X, sigma :: rest =>
    if isPermB n sigma then
      if (diagVals X sigma).all (fun v => decide (0 < v)) then
        match minList (diagVals X sigma) with
        | none => .error "empty matrix: no coefficient"
        | some z =>
          match bvnReplayAux n (subPerm X sigma z) rest with
          | .ok (zs, R) => .ok (z :: zs, R)
          | .error e => .error e
      else .error "permutation leaves the support of the residual matrix"
    else .error "not a permutation of 0..n-1"

/-- Replay the implementation's permutations through the exact Birkhoff loop:
returns the coefficients `z` and the final residual matrix. -/
def bvnReplay (n : Nat) (X : List (List Rat)) (perms : List (List Nat)) :
    Except String (List Rat × List (List Rat)) :=
  if isSquareB n X then bvnReplayAux n X perms else .error "not an n x n matrix"

def headSum : List (List Rat) → Rat
  | [] => 0
  | r :: _ => sumList r

/-- common row/column sum of a non-negative `n × n` matrix all of whose row and column sums agree -/
def isBalancedB (n : Nat) (X : List (List Rat)) : Option Rat :=
  if isSquareB n X && X.all (fun r => r.all (fun x => decide (0 ≤ x))) then
    if X.all (fun r => sumList r == headSum X) &&
        allLt n (fun j => sumList (X.map (fun r => r.getD j 0)) == headSum X) then some (headSum X) else none
  else none

/-- number of zero entries -/
def zeroCountL (X : List (List Rat)) : Nat := (X.map (fun r => r.count 0)).sum

def isZeroB (X : List (List Rat)) : Bool := X.all (fun r => r.all (fun x => x == 0))

/-- entry `(i, j)` of `Σ_k zs[k] · P_{perms[k]}` -/
def reconEntry (n : Nat) (zs : List Rat) (perms : List (List Nat)) (i j : Nat) : Rat :=
  sumList (List.zipWith (fun z sigma => z * (if sigma.getD i n = j then 1 else 0)) zs perms)

/-- `Σ_k zs[k] · P_{perms[k]} = X0` entrywise (exact) -/
def reconB (n : Nat) (X0 : List (List Rat)) (zs : List Rat) (perms : List (List Nat)) : Bool :=
  zs.length == perms.length &&
  allLt n (fun i => allLt n (fun j => reconEntry n zs perms i j == matGet X0 i j))

/-- the Birkhoff loop driven by an arbitrary choice function `choose` (which permutation to take for the
current residual matrix), with fuel: returns the permutations it chose -/
def bvnRunL (choose : List (List Rat) → List Nat) : Nat → List (List Rat) → List (List Nat)
  | 0, _ => []
  | k + 1, X =>
    if isZeroB X then []
    else
      match minList (diagVals X (choose X)) with
      | none => []
      | some z => choose X :: bvnRunL choose k (subPerm X (choose X) z)

#eval bvnReplay 3 [[1/2, 1/2, 0], [1/2, 0, 1/2], [0, 1/2, 1/2]] [[0, 2, 1], [1, 0, 2]]
#eval isBalancedB 3 [[1/2, 1/2, 0], [1/2, 0, 1/2], [0, 1/2, 1/2]]
#eval reconB 3 [[1/2, 1/2, 0], [1/2, 0, 1/2], [0, 1/2, 1/2]] [1/2, 1/2] [[0, 2, 1], [1, 0, 2]]
#eval bvnReplay 3 [[1/2, 1/2, 0], [1/2, 0, 1/2], [0, 1/2, 1/2]] [[0, 1, 2]]
#eval bvnReplay 3 [[1/2, 1/2, 0], [1/2, 0, 1/2], [0, 1/2, 1/2]] [[0, 1, 1]]
