/-! Core-only executable model of `profile_utils.py` (`compute_ordinal_profile`,
`profile_with_ties_to_strict_profile`, `incomplete_profile_to_complete_profile`,
`is_consistent_valuation_profile`) and `data_generation.py` (the two generators) — property C18.

Conventions: one agent = one row; ranks are `Option Nat`, values `Option Rat`, `none` = NaN.
Whatever depends on an unspecified order (numpy `argsort` among equal keys / among NaNs,
`np.random.shuffle`) takes that order as an explicit argument: a list of positions. -/

/-- entry `j` of a row; an out-of-range position reads as NaN -/
def valAt {α : Type} (l : List (Option α)) (j : Nat) : Option α :=
  match l[j]? with
  | some v => v
  | none => none

/-- Bool version of `List.Pairwise` -/
def allPairsB {α : Type} (r : α → α → Bool) : List α → Bool
  | [] => true
  | a :: l => l.all (r a) && allPairsB r l

/-- stable insertion sort (structural, so that it also reduces inside `decide`) -/
def insertBy {α : Type} (le : α → α → Bool) (a : α) : List α → List α
  | [] => [a]
  | b :: l => if le a b then a :: b :: l else b :: insertBy le a l

def isortBy {α : Type} (le : α → α → Bool) : List α → List α
  | [] => []
  | a :: l => insertBy le a (isortBy le l)

/-- number of non-NaN entries -/
def numSome {α : Type} (l : List (Option α)) : Nat := l.countP Option.isSome

/-- positions holding NaN, increasing (`np.where(np.isnan(row))[0]`) -/
def nanPositions {α : Type} (row : List (Option α)) : List Nat :=
  (List.range row.length).filter fun j => (valAt row j).isNone

/-- `a` may stand before `b` in `argsort(-vals)`: NaN last, otherwise value of `a` ≥ value of `b` -/
def descLe (a b : Option Rat) : Bool :=
  match a, b with
  | _, none => true
  | none, some _ => false
  | some x, some y => decide (y ≤ x)

/-- `a` may stand before `b` in `argsort(ranks)`: NaN last, otherwise rank of `a` ≤ rank of `b` -/
def ascLe (a b : Option Nat) : Bool :=
  match a, b with
  | _, none => true
  | none, some _ => false
  | some x, some y => decide (x ≤ y)

/-- both non-NaN and value `a` > value `b` -/
def gtV (a b : Option Rat) : Bool :=
  match a, b with
  | some x, some y => decide (y < x)
  | _, _ => false

/-- both non-NaN and rank `a` < rank `b` -/
def ltR (a b : Option Nat) : Bool :=
  match a, b with
  | some x, some y => decide (x < y)
  | _, _ => false

/-- `order` is an admissible outcome of `np.argsort(-vals)`: a permutation of the positions,
non-NaN positions first, values non-increasing along it. -/
def validDescOrder (vals : List (Option Rat)) (order : List Nat) : Bool :=
  order.isPerm (List.range vals.length) &&
  allPairsB (fun a b => descLe (valAt vals a) (valAt vals b)) order

/-- `order` is an admissible outcome of `np.argsort(ranks)` (NaN last, ranks non-decreasing); with
`first = true` additionally tied (equal, non-NaN) entries come in increasing position (`np.sort` of
the tied indices). The relative order of NaN positions is never constrained. -/
def validAscOrder (ranks : List (Option Nat)) (order : List Nat) (first : Bool) : Bool :=
  order.isPerm (List.range ranks.length) &&
  allPairsB (fun a b => ascLe (valAt ranks a) (valAt ranks b) &&
    (!first || (valAt ranks a).isNone || valAt ranks a != valAt ranks b || decide (a < b))) order

/-- one admissible `argsort(-vals)`: the stable descending sort of the positions (what a stable sort
would give; numpy's default sort is not stable, hence `validDescOrder`) -/
def descOrderStable (vals : List (Option Rat)) : List Nat :=
  isortBy (fun a b => descLe (valAt vals a) (valAt vals b)) (List.range vals.length)

/-! ## A. `compute_ordinal_profile` (one row) -/

/-- `ans = vals*0; ans[order[k]] += k+1`: a non-NaN position receives 1 + its index in `order`,
NaN stays NaN. (`order` is `argsort(-vals)`; for a permutation `order` the `+=` happens exactly once
per position, which is what `idxOf` expresses.) -/
def ordinalWith (vals : List (Option Rat)) (order : List Nat) : List (Option Nat) :=
  (List.range vals.length).map fun j =>
    if (valAt vals j).isSome then some (order.idxOf j + 1) else none

/-- checker: is `out` a legal ordinal row for the valuation row `vals`? -/
def ordinalOkB (vals : List (Option Rat)) (out : List (Option Nat)) : Bool :=
  out.length == vals.length &&
  (vals.zip out).all (fun p => p.1.isSome == p.2.isSome) &&
  (out.filterMap id).isPerm (List.range' 1 (numSome vals)) &&
  (vals.zip out).all (fun p => (vals.zip out).all fun q => !gtV p.1 q.1 || ltR p.2 q.2)

/-! ## B. `profile_with_ties_to_strict_profile` (one row) -/

/-- `order` = positions sorted by rank, ties and NaNs in the order numpy / the shuffle / `np.sort`
finally produced. A position whose rank is shared (run of length > 1 in the sorted order) receives
1 + its index in `order`; an untied entry and NaN are left untouched (the code only writes when
`num_tied > 1`). -/
def breakTiesWith (row : List (Option Nat)) (order : List Nat) : List (Option Nat) :=
  (List.range row.length).map fun j =>
    match valAt row j with
    | none => none
    | some r => if row.count (some r) > 1 then some (order.idxOf j + 1) else some r

/-- the order produced with `tie_breaker = "first"`: stable sort of the positions by rank, NaN last -/
def ascOrderFirst (row : List (Option Nat)) : List Nat :=
  isortBy (fun a b => ascLe (valAt row a) (valAt row b)) (List.range row.length)

/-- well-formed row with ties: every non-NaN entry equals 1 + the number of entries ranked strictly
better (a tie class occupying ranks r..r+t-1 is written with all entries = r). -/
def wfTiesB (row : List (Option Nat)) : Bool :=
  row.all fun x =>
    match x with
    | none => true
    | some r => r == row.countP (fun y => ltR y (some r)) + 1

/-- checker for tie breaking. `first = true` additionally checks the `first` tie-breaker. -/
def strictifyOkB (row out : List (Option Nat)) (first : Bool) : Bool :=
  out.length == row.length &&
  (row.zip out).all (fun p => p.1.isSome == p.2.isSome) &&
  allPairsB (fun a b => a != b) (out.filterMap id) &&
  (row.zip out).all (fun p => (row.zip out).all fun q => !ltR p.1 q.1 || ltR p.2 q.2) &&
  (row.zip out).all (fun p =>
    match p.1, p.2 with
    | some r, some s => decide (r ≤ s) && decide (s < r + row.count (some r))
    | _, _ => true) &&
  (!first || allPairsB (fun p q => !(p.1.isSome && p.1 == q.1) || ltR p.2 q.2) (row.zip out))

/-! ### B'. tie breaking for ANY encoding of a weak order (after `fix:` F14)

The pinned code wrote new ranks only into tie groups and left untied entries untouched, which is right only when ties are
numbered "competition style" (`wfTiesB`: 1,1,3). On a densely numbered row (1,1,2 — accepted by `ProfileWithTies.of`) it
returned 1,2,2. After the repair every non-NaN position receives 1 + its index in the sorted order. -/

/-- repaired `profile_with_ties_to_strict_profile` on one row -/
def breakTiesPos (row : List (Option Nat)) (order : List Nat) : List (Option Nat) :=
  (List.range row.length).map fun j =>
    if (valAt row j).isSome then some (order.idxOf j + 1) else none

/-- checker for tie breaking on an arbitrary row with ties: `strictifyOkB` without the clause that speaks about the
competition-style block of a tie class -/
def strictOkB (row out : List (Option Nat)) (first : Bool) : Bool :=
  out.length == row.length &&
  (row.zip out).all (fun p => p.1.isSome == p.2.isSome) &&
  allPairsB (fun a b => a != b) (out.filterMap id) &&
  (row.zip out).all (fun p => (row.zip out).all fun q => !ltR p.1 q.1 || ltR p.2 q.2) &&
  (!first || allPairsB (fun p q => !(p.1.isSome && p.1 == q.1) || ltR p.2 q.2) (row.zip out))

/-! ## B''. `incomplete_valuation_profile_to_complete_valuation_profile` (one row): NaN becomes 0, everything else is kept -/

def fillZero (vals : List (Option Rat)) : List Rat :=
  vals.map fun x => match x with
    | some v => v
    | none => 0

/-! ## C. `incomplete_profile_to_complete_profile` (one row)
`mode`: 0 = "accept", 1 = "first", anything else = "random". -/

/-- `nanOrder` is the shuffled `nan_indices` (only used in random mode). -/
def completeWith (row : List (Option Nat)) (mode : Nat) (nanOrder : List Nat) : List (Option Nat) :=
  let m := row.length
  let k := (nanPositions row).length
  let idx := if mode == 1 then nanPositions row else nanOrder
  (List.range m).map fun j =>
    match valAt row j with
    | some r => some r
    | none => if mode == 0 then some (m - k + 1) else some (m - k + 1 + idx.idxOf j)

/-- admissible shuffle outcome: a permutation of the NaN positions -/
def validNanOrder (row : List (Option Nat)) (nanOrder : List Nat) : Bool :=
  nanOrder.isPerm (nanPositions row)

/-- existing ranks do not exceed `m - k` (true for every well-formed incomplete row) -/
def wfIncompleteB (row : List (Option Nat)) : Bool :=
  row.all fun x =>
    match x with
    | none => true
    | some r => decide (r ≤ row.length - (nanPositions row).length)

/-- checker for completion -/
def completeOkB (row out : List (Option Nat)) (mode : Nat) : Bool :=
  let m := row.length
  let k := (nanPositions row).length
  let got := (nanPositions row).map (valAt out)
  out.length == m &&
  (row.zip out).all (fun p => match p.1 with | some r => p.2 == some r | none => true) &&
  (if mode == 0 then got.all (· == some (m - k + 1))
   else if mode == 1 then got == (List.range' (m - k + 1) k).map some
   else got.isPerm ((List.range' (m - k + 1) k).map some))

/-! ## D. `is_consistent_valuation_profile` (one row) -/

/-- `np.allclose(a, b)` on two scalars of which either may be NaN, with the repair
"both compared valuations NaN ⇒ agree" (F11). -/
def closeV (tol : Rat → Rat → Bool) (a b : Option Rat) : Bool :=
  match a, b with
  | some x, some y => tol x y
  | none, none => true
  | _, _ => false

/-- the unrepaired comparison: `np.allclose` is `False` as soon as a NaN is involved -/
def closeVOrig (tol : Rat → Rat → Bool) (a b : Option Rat) : Bool :=
  match a, b with
  | some x, some y => tol x y
  | _, _ => false

/-- `order1 = argsort(-vals)`, `order2 = argsort(ranks)`; position-wise: same item, or
`allclose(vals[item_from_profile], vals[item_from_valuation_profile])`. `ranks` only enters through
`order2` (kept as an argument to mirror the signature of the Python function). -/
def isConsistentWith (tol : Rat → Rat → Bool) (vals : List (Option Rat)) (_ranks : List (Option Nat))
    (order1 order2 : List Nat) : Bool :=
  (order1.zip order2).all fun p => p.1 == p.2 || closeV tol (valAt vals p.2) (valAt vals p.1)

/-- the code as pinned (without the F11 repair) -/
def isConsistentOrigWith (tol : Rat → Rat → Bool) (vals : List (Option Rat)) (_ranks : List (Option Nat))
    (order1 order2 : List Nat) : Bool :=
  (order1.zip order2).all fun p => p.1 == p.2 || closeVOrig tol (valAt vals p.2) (valAt vals p.1)

def ratAbs (x : Rat) : Rat := if x < 0 then -x else x

/-- numpy's default `allclose(a, b)`: `|a - b| ≤ atol + rtol * |b|`, `atol = 1e-8`, `rtol = 1e-5` -/
def npTol (a b : Rat) : Bool :=
  decide (ratAbs (a - b) ≤ 1 / 100000000 + 1 / 100000 * ratAbs b)

/-! ## E. the generators (one row); the random draws are inputs -/

/-- `np.where(utilities < 0, 0, utilities)` (normal generator only) -/
def clip (draws : List Rat) : List Rat := draws.map fun x => if x < 0 then 0 else x

/-- `np.sort(utilities)[::-1]` -/
def sortDesc (draws : List Rat) : List Rat := isortBy (fun a b => decide (b ≤ a)) draws

/-- literal form: `order = argsort(ranks)`; the item at index `t` of `order` (while non-NaN) receives
`sorted[t] / sum`. A zero sum gives NaN (IEEE `0/0`; all draws are `≥ 0` in both generators). -/
def generateRowWith (ranks : List (Option Nat)) (draws : List Rat) (order : List Nat) :
    List (Option Rat) :=
  let s := draws.sum
  let u := sortDesc draws
  (List.range ranks.length).map fun j =>
    match valAt ranks j with
    | none => none
    | some _ => if s = 0 then none else (u[order.idxOf j]?).map (· / s)

/-- order-free form for strict rows: the index of an item in `argsort(ranks)` is the number of
entries ranked strictly better (for a strict row with ranks 1..k this is `rank - 1`). -/
def generateRow (ranks : List (Option Nat)) (draws : List Rat) : List (Option Rat) :=
  let s := draws.sum
  let u := sortDesc draws
  (List.range ranks.length).map fun j =>
    match valAt ranks j with
    | none => none
    | some r => if s = 0 then none else (u[ranks.countP (fun y => ltR y (some r))]?).map (· / s)

/-- strict row whose non-NaN ranks are exactly 1..k -/
def strictRowB (ranks : List (Option Nat)) : Bool :=
  (ranks.filterMap id).isPerm (List.range' 1 (numSome ranks))

/-- sum of the non-NaN entries of a valuation row (`np.nansum`) -/
def rowSum (vals : List (Option Rat)) : Rat := (vals.filterMap id).sum

#eval ascOrderFirst [some 3, some 1, none, some 3, some 1]
#eval sortDesc [1, 3, 2, 3]
#eval ordinalWith [some 3, none, some 5, some 3] [2, 0, 3, 1]
#eval ordinalOkB [some 3, none, some 5, some 3] [some 3, none, some 1, some 2]
#eval breakTiesWith [some 1, some 1, some 3, none] [1, 0, 2, 3]
#eval strictifyOkB [some 1, some 1, some 3, none] [some 2, some 1, some 3, none] false
#eval completeWith [some 1, none, some 2, none] 2 [3, 1]
#eval completeOkB [some 1, none, some 2, none] [some 1, some 4, some 2, some 3] 2
#eval generateRow [some 2, none, some 1] [1, 3]
#eval isConsistentWith npTol [some (1/4), none, some (3/4)] [some 2, none, some 1] [2, 0, 1] [2, 0, 1]
