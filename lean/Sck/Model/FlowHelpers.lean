import Sck.Model.Dfs
import Sck.Model.Mcm

/-! Core-only executable MIRROR of the public helper functions around the max-flow core:

* `socialchoicekit/flow.py`: `reachable_vertices`, `flow_across_network`, `capacity_across_cut`,
  `convert_bipartite_graph_to_flow_network`;
* `socialchoicekit/bistochastic.py`: `positivity_graph`.

Data representation = that of `Sck/Model/Dfs.lean` / `Sck/Model/Mcm.lean`: a flow network / residual graph is
the dict `{u: [(v, c), …]}` as an association list in dict (insertion) order (`Dfs.Graph`), the flow dict is
`Dfs.FlowDict`, an unweighted (bipartite) graph `{u: [v, …]}` is `FH.BGraph = List (Int × List Int)` (the
argument type of `adjOf`), a Python `set` of vertices is a list.  The keys of a Python dict are distinct; the
association lists are meant to have duplicate-free keys (the driver rejects duplicates), lookups take the
first hit.  Exceptions of the Python code are `Except String` results carrying the name of the exception
(`KeyError`, `ValueError`, `IndexError`); `fuel` is never returned for the fuel used (proved).

Quirks mirrored on purpose (see `Sck/Props/C08Helpers.lean`, `C09Helpers.lean`):

* `reachable_vertices` looks up `G[current_node]` for every vertex it pops: a reachable vertex that is not a
  key is a `KeyError` (the start vertex included), whatever the order in which the frontier set is popped;
* `flow_across_network` raises `ValueError` as soon as ANY key `(i, j)` of the flow dict has `j == s`, whatever
  the value stored there (a zero flow on an edge into the source is enough; so is a self loop `(s, s)`);
* `capacity_across_cut` ADDS the capacity of every edge leaving the set and SUBTRACTS the capacity of every
  edge entering it;
* `convert_bipartite_graph_to_flow_network` never looks at the adjacency lists of the right vertices and
  reads a missing left key as the empty list (`G.get(v, [])`); later assignments to the same key overwrite
  earlier ones in place (duplicate vertices, `-1` / `-2` used as vertex names);
* `positivity_graph` tests `X[i, j] > 0` without any tolerance, only creates keys for vertices that have an
  edge, and reads `n = X.shape[0]` only: with fewer than `n` columns it raises `IndexError`, surplus columns
  are ignored. -/

namespace FH

open Dfs (Graph FlowDict adj? keys)

/-- an unweighted graph `{u: [v, …]}` in dict order (argument type of `adjOf`) -/
abbrev BGraph := List (Int × List Int)

/-! ### `reachable_vertices` -/

/-- the `while True` loop of `reachable_vertices`: `fr` is the frontier (a Python `set` popped in arbitrary
order; here a stack, possibly with repetitions — the resulting SET and the raising of `KeyError` do not
depend on the order, see `FH.reachable_ok_iff`), `ans` the answer set so far (most recent first). -/
def reachLoop (G : Graph) : Nat → List Int → List Int → Except String (List Int)
  | 0, _, _ => .error "fuel"
  | _ + 1, [], ans => .ok ans
  | k + 1, x :: fr, ans =>
    if ans.contains x then reachLoop G k fr ans
    else
      match adj? G x with
      | none => .error "KeyError"
      | some l => reachLoop G k ((l.filter (fun e => decide (0 < e.2))).map (·.1) ++ fr) (x :: ans)

/-- `reachable_vertices(G, s)` (fuel `Dfs.reachFuel G`, proved sufficient) -/
def reachable (G : Graph) (s : Int) : Except String (List Int) := reachLoop G (Dfs.reachFuel G) [s] []

/-! ### `flow_across_network` -/

/-- the `for (i, j), f in flow.items()` loop: first `if i == s: ans += f`, then `if j == s: raise` -/
def flowAcrossLoop (s : Int) : FlowDict → Int → Except String Int
  | [], acc => .ok acc
  | e :: rest, acc =>
    let acc' := if e.1.1 == s then acc + e.2 else acc
    if e.1.2 == s then .error "ValueError" else flowAcrossLoop s rest acc'

/-- `flow_across_network(flow, s)` -/
def flowAcross (fl : FlowDict) (s : Int) : Except String Int := flowAcrossLoop s fl 0

/-- the entries of the flow dict whose key starts at `s`: what is summed when nothing raises -/
def outSum (fl : FlowDict) (s : Int) : Int := ((fl.filter (fun e => e.1.1 == s)).map (·.2)).sum

/-! ### `capacity_across_cut` -/

/-- body of the inner loop for the edge `(i, j, c)`: the two `if`s in the code's order -/
def capStep (cut : List Int) (i : Int) (acc : Int) (a : Int × Int) : Int :=
  let acc1 := if cut.contains i && !cut.contains a.1 then acc + a.2 else acc
  if cut.contains a.1 && !cut.contains i then acc1 - a.2 else acc1

/-- `capacity_across_cut(G, cut)`: no dict lookup can fail (`G[i]` for `i in G.keys()`; heads need not be keys) -/
def capAcross (G : Graph) (cut : List Int) : Int :=
  G.foldl (fun acc e => e.2.foldl (capStep cut e.1) acc) 0

/-- all edges `(i, j, c)` in the order of `for i in G.keys(): for (j, c) in G[i]` -/
def edgeTriples (G : Graph) : List (Int × Int × Int) :=
  G.flatMap (fun e => e.2.map (fun a => (e.1, a.1, a.2)))

/-- total capacity of the edges leaving `cut` (tail inside, head outside) -/
def outCap (G : Graph) (cut : List Int) : Int :=
  (((edgeTriples G).filter (fun e => cut.contains e.1 && !cut.contains e.2.1)).map (·.2.2)).sum

/-- total capacity of the edges entering `cut` (head inside, tail outside) -/
def inCap (G : Graph) (cut : List Int) : Int :=
  (((edgeTriples G).filter (fun e => cut.contains e.2.1 && !cut.contains e.1)).map (·.2.2)).sum

/-! ### `convert_bipartite_graph_to_flow_network` -/

/-- `network[k] = l` on an insertion-ordered dict -/
def gset (G : Graph) (k : Int) (l : List (Int × Int)) : Graph :=
  if G.any (fun e => e.1 == k) then G.map (fun e => if e.1 == k then (e.1, l) else e) else G ++ [(k, l)]

/-- `convert_bipartite_graph_to_flow_network(G, X, Y)`; `G.get(v, [])` is `adjOf G v` -/
def convert (G : BGraph) (X Y : List Int) : Graph :=
  let n1 := X.foldl (fun net v => gset net v ((adjOf G v).map (fun y => (y, 1)))) []
  let n2 := gset n1 (-1) (X.map (fun x => (x, 1)))
  let n3 := gset n2 (-2) []
  Y.foldl (fun net v => gset net v [(-2, 1)]) n3

/-! ### `positivity_graph` -/

/-- `G_X[k] = G_X.get(k, []) + [x]` on an insertion-ordered dict -/
def bappend (d : BGraph) (k x : Int) : BGraph :=
  if d.any (fun e => e.1 == k) then d.map (fun e => if e.1 == k then (e.1, e.2 ++ [x]) else e)
  else d ++ [(k, [x])]

/-- `X[i, j]` on a matrix given by its rows; `none` = `IndexError` -/
def entry? (X : List (List Rat)) (i j : Nat) : Option Rat :=
  match X[i]? with
  | some r => r[j]?
  | none => none

/-- body of the double loop for the entry `x = X[i, j]` -/
def posStep (n : Nat) (d : BGraph) (i j : Nat) (x : Rat) : BGraph :=
  if 0 < x then bappend (bappend d (Int.ofNat i) (Int.ofNat (j + n))) (Int.ofNat (j + n)) (Int.ofNat i) else d

/-- `for j in range(n)` for the row `i` -/
def posRow (X : List (List Rat)) (n i : Nat) : List Nat → BGraph → Except String BGraph
  | [], d => .ok d
  | j :: js, d =>
    match entry? X i j with
    | none => .error "IndexError"
    | some x => posRow X n i js (posStep n d i j x)

/-- `for i in range(n)` -/
def posRows (X : List (List Rat)) (n : Nat) : List Nat → BGraph → Except String BGraph
  | [], d => .ok d
  | i :: is, d =>
    match posRow X n i (List.range n) d with
    | .error e => .error e
    | .ok d' => posRows X n is d'

/-- `positivity_graph(X)` for the 2-dimensional array with the rows `X` (`n = X.shape[0]`) -/
def positivityGraph (X : List (List Rat)) : Except String BGraph :=
  posRows X X.length (List.range X.length) []

/-! ### examples -/

/-- residual-style graph: `3` is only reachable through a zero-capacity entry -/
def exReachG : Graph := [(0, [(1, 2), (3, 0)]), (1, [(2, 1), (0, 0)]), (2, [(0, 5)]), (3, [(2, 1)]), (4, [(0, 1)])]
/-- the neighbour `7` of `1` is not a key -/
def exReachBad : Graph := [(0, [(1, 2)]), (1, [(7, 1)])]
/-- `exNet` without its edge `3 → 0` into the source -/
def exNetNoBack : Net := { exNet with edges := [(0,1,3),(0,2,2),(1,2,1),(1,3,2),(2,3,3)] }

#eval reachable exReachG 0
#eval reachable exReachG 3
#eval reachable exReachBad 0
#eval reachable exReachBad 5
#eval flowAcross [((0, 1), 3), ((0, 2), 2), ((1, 2), 1), ((1, 3), 2), ((2, 3), 3)] 0
#eval flowAcross [((0, 1), 3), ((0, 2), 2), ((1, 2), 1), ((1, 3), 2), ((2, 3), 3), ((3, 0), 0)] 0
#eval (capAcross (Dfs.netToG exNet) [0], outCap (Dfs.netToG exNet) [0], inCap (Dfs.netToG exNet) [0])
#eval convert exBipG exBipX exBipY
#eval convert exBipG exBipX exBipY == Dfs.netToG (bipNet exBipX exBipY (adjOf exBipG))
#eval convert [(1, [2])] [1, 1, -1] [2, -2, 1]
#eval positivityGraph [[1/2, 0, 1/2], [0, 1, 0], [1/2, 0, 1/2]]
#eval positivityGraph [[1, 0], [0, 0]]
#eval positivityGraph [[1], [0]]
#eval positivityGraph [[0, 0, 5], [0, 0, 5]]

end FH
