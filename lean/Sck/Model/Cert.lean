/-! Core-only executable certificate checker for C04 (no Mathlib import: usable from the compiled driver). -/

/-- matrix entry, `none` = NaN = unacceptable -/
def entry (w : List (List (Option Rat))) (i j : Nat) : Option Rat := ((w.getD i []).getD j none)

def allLt (n : Nat) (p : Nat → Bool) : Bool := (List.range n).all p

/-- `sigma` is a permutation of `0..n-1` given as a list, with its inverse `inv` supplied as a witness -/
def isPermWith (n : Nat) (sigma inv : List Nat) : Bool :=
  sigma.length == n && inv.length == n &&
  allLt n (fun i => decide (sigma.getD i n < n) && inv.getD (sigma.getD i n) n == i) &&
  allLt n (fun j => decide (inv.getD j n < n) && sigma.getD (inv.getD j n) n == j)

/-- optimality certificate for an assignment: potentials `u`, `v` and slack `delta` -/
def assignCertOk (n : Nat) (w : List (List (Option Rat))) (sigma inv : List Nat) (u v : List Rat) (delta : Rat) : Bool :=
  isPermWith n sigma inv && decide (0 ≤ delta) &&
  allLt n (fun i => allLt n (fun j =>
    match entry w i j with
    | none => true
    | some x => decide (x ≤ u.getD i 0 + v.getD j 0 + delta))) &&
  allLt n (fun i =>
    match entry w i (sigma.getD i n) with
    | none => false
    | some x => x == u.getD i 0 + v.getD (sigma.getD i n) 0)

#eval assignCertOk 2 [[some 3, some 1], [some 2, none]] [1, 0] [1, 0] [1, 2] [0, 0] 0
