import Sck.Model.Eat
import Sck.Model.Rsd

/-! Model (core-only): `SimultaneousEating.bistochastic(profile, speeds)` of
`socialchoicekit/randomized_allocation.py` on a strict INCOMPLETE `n × n` profile (`none` = `np.nan` =
"agent `i` marked item `j` unacceptable").

What the code REALLY does: the only place where the profile is read is
`ranked_items = np.argsort(profile, axis=1)`. `np.argsort` sorts NaN last, so agent `i`'s eating order is
its acceptable items by increasing rank FOLLOWED BY ITS UNACCEPTABLE ITEMS, among the NaN entries by
increasing item index. The last point is an observed fact about the numpy build used (2.5.3, AVX-512 argsort),
checked on 160 000 random strict rows of every length `n ≤ 16` without exception; for rows longer than 16 the
order among the NaNs is data dependent, and for rows with TIED ranks the sort is not stable even for `n = 5`
(`np.argsort([3,2,1,1,2]) = [3,2,1,4,0]`). So the mirror is claimed for strict rows and `n ≤ 16` only; ties are
excluded by the precondition `eatIncWfB`. Nothing afterwards looks at the profile again: the loop is exactly the loop
of `Eat.eatLoop` run on this `ranked_items`. In particular
* a row that is entirely NaN is eaten in index order `0, 1, …, n-1`;
* the code never raises on a strict incomplete profile with positive speeds (it does not call
  `check_profile`; the thresholds `> 1e-9`, `< 1 - 1e-9` are the exact tests `> 0`, `< 1` as in `Eat`);
* agents DO walk into the items they marked unacceptable (known finding of property C07). -/

namespace Eat

/-- `np.argsort` of one strict rank row with NaN: the acceptable items by increasing rank
(`plistOfRow` = argsort cut at the first NaN), then the NaN items by increasing index -/
def rankedInc (row : List (Option Nat)) : List Nat :=
  plistOfRow row ++ (List.range row.length).filter (fun j => (row.getD j none).isNone)

/-- matrix and ghost event log of the real loop on an incomplete profile -/
def eatIncLog (n : Nat) (P : List (List (Option Nat))) (speeds : List Rat) :
    Option (List (List Rat) × List Event) :=
  eatLoop n (P.map rankedInc) speeds (2 * n + 1) (init n)

/-- `SimultaneousEating.bistochastic` on an incomplete profile -/
def eatInc (n : Nat) (P : List (List (Option Nat))) (speeds : List Rat) : Option (List (List Rat)) :=
  (eatIncLog n P speeds).map (·.1)

/-- `ProbabilisticSerial.bistochastic` on an incomplete profile -/
def psInc (n : Nat) (P : List (List (Option Nat))) : Option (List (List Rat)) :=
  eatInc n P (List.replicate n 1)

/-- number of acceptable items of a row that are ranked strictly better than rank `r` -/
def countBelow (row : List (Option Nat)) (r : Nat) : Nat :=
  row.countP (fun e => match e with | some r' => decide (r' < r) | none => false)

/-- number of acceptable items of a row -/
def countSome (row : List (Option Nat)) : Nat := row.countP (fun e => e.isSome)

/-- number of NaN entries among the first `j` entries of a row -/
def countNoneBefore (row : List (Option Nat)) (j : Nat) : Nat :=
  (row.take j).countP (fun e => e.isNone)

/-- the rank of item `j` in the complete row that `np.argsort` cannot distinguish from `row`: an acceptable
item gets `1 +` the number of acceptable items ranked better, the `k`-th NaN entry (by index, `k = 0, 1, …`)
gets rank `(number of acceptable items) + 1 + k` -/
def completeKey (row : List (Option Nat)) (j : Nat) : Nat :=
  match row.getD j none with
  | some r => countBelow row r + 1
  | none => countSome row + countNoneBefore row j + 1

/-- the completed row: a permutation of `1..n` when `row` is strict -/
def completeRow (row : List (Option Nat)) : List Nat :=
  (List.range row.length).map (completeKey row)

/-- the completed profile: the NaN items are ranked after the ranked ones, by index -/
def completeFirst (P : List (List (Option Nat))) : List (List Nat) := P.map completeRow

/-- no two acceptable items of the row have the same rank -/
def strictRowB (row : List (Option Nat)) : Bool :=
  (List.range row.length).all (fun a => (List.range row.length).all (fun b =>
    decide (a = b) || (row.getD a none).isNone || decide (row.getD a none ≠ row.getD b none)))

/-- decidable well-formedness of an incomplete instance: `n` rows of length `n`, every row strict (the
ranks of the acceptable items are pairwise different — any natural numbers, not necessarily `1..k`, as
`np.argsort` only compares them), and `n` positive speeds. Rows may contain any number of NaN entries,
also none and also only NaN. -/
def eatIncWfB (n : Nat) (P : List (List (Option Nat))) (speeds : List Rat) : Bool :=
  decide (P.length = n) &&
  P.all (fun row => decide (row.length = n) && strictRowB row) &&
  decide (speeds.length = n) && speeds.all (fun s => decide (0 < s))

/-- agent `i` marked item `j` unacceptable (`profile[i, j]` is NaN) -/
def unacc (P : List (List (Option Nat))) (i j : Nat) : Bool := (prefRank P i j).isNone

end Eat

#eval Eat.rankedInc [none, some 2, none, some 1]
#eval Eat.completeRow [none, some 2, none, some 1]
#eval Eat.eatInc 3 [[some 1, none, none], [some 1, some 2, some 3], [some 2, some 1, some 3]] [1, 1, 1]
#eval Eat.eat 3 (Eat.completeFirst [[some 1, none, none], [some 1, some 2, some 3], [some 2, some 1, some 3]]) [1, 1, 1]
#eval Eat.eatInc 3 [[none, some 1, none], [none, some 1, some 2], [none, none, some 1]] [1, 1, 1]
