/-! Core-only executable model of the voting rules (C10–C13): scoring rules, winners, tie-breaking,
ranking output, Copeland, randomized scoring. A complete profile is a list of ballots (one per voter);
entry `j` of a ballot is the voter's rank of alternative `j` (1 = best). -/

namespace Vote

abbrev Profile := List (List Nat)

/-- column `j` of the profile: every voter's rank of alternative `j` -/
def col (P : Profile) (j : Nat) : List Nat := P.map (fun row => row.getD j 0)

def sumI (l : List Int) : Int := l.foldl (· + ·) 0
def sumQ (l : List Rat) : Rat := l.foldl (· + ·) 0

/-- a positional rule with integer weights: score of `j` = Σ_voters w(rank of j) -/
def positional (w : Nat → Int) (P : Profile) (m : Nat) : List Int :=
  (List.range m).map (fun j => sumI ((col P j).map w))

def pluralityW (r : Nat) : Int := if r = 1 then 1 else 0
def bordaW (m r : Nat) : Int := (m : Int) - (r : Int)
def vetoW (m r : Nat) : Int := if r < m then 1 else 0
def kApprovalW (k r : Nat) : Int := if r ≤ k then 1 else 0

def plurality (P : Profile) (m : Nat) : List Int := positional pluralityW P m
def borda (P : Profile) (m : Nat) : List Int := positional (bordaW m) P m
def veto (P : Profile) (m : Nat) : List Int := positional (vetoW m) P m
def kApproval (k : Nat) (P : Profile) (m : Nat) : List Int := positional (kApprovalW k) P m

/-- Harmonic: Σ_voters 1/rank, exact -/
def harmonic (P : Profile) (m : Nat) : List Rat :=
  (List.range m).map (fun j => sumQ ((col P j).map (fun (r : Nat) => (1 : Rat) / ((r : Nat) : Rat))))

/-- rank histogram of alternative `j`: how many voters put it at rank 1, 2, …, m -/
def hist (P : Profile) (m j : Nat) : List Nat :=
  (List.range m).map (fun r => ((col P j).filter (· == r + 1)).length)

/-- Harmonic summed by rank (`Σ_r count(rank = r)/r`): a function of the histogram -/
def harmonicOfHist (h : List Nat) : Rat :=
  sumQ ((List.range h.length).map (fun r => (h.getD r 0 : Rat) / ((r + 1 : Nat) : Rat)))

/-- utilitarian share: NaN-skipping column sums divided by the NaN-skipping total (`none` if the total is 0) -/
def nanSum (l : List (Option Rat)) : Rat := sumQ (l.map (fun x => x.getD 0))

def utilitarian (V : List (List (Option Rat))) (m : Nat) : Option (List Rat) :=
  let total := sumQ (V.map nanSum)
  if total = 0 then none
  else some ((List.range m).map (fun j => nanSum (V.map (fun row => row.getD j none)) / total))

/-- maximum of a non-empty list -/
def maxI : List Int → Int
  | [] => 0
  | [a] => a
  | a :: as => max a (maxI as)

def maxQ : List Rat → Rat
  | [] => 0
  | [a] => a
  | a :: as => max a (maxQ as)

/-- `np.argwhere(score == np.amax(score))`: positions of the maximal score, ascending -/
def winnersI (s : List Int) : List Nat := (List.range s.length).filter (fun j => s.getD j 0 == maxI s)
def winnersQ (s : List Rat) : List Nat := (List.range s.length).filter (fun j => s.getD j 0 == maxQ s)

inductive TieBreaker
  | accept
  | first
  | random (k : Nat)   -- the k-th of the tied alternatives was drawn

/-- `break_tie` on the (index-shifted) winners; `none` = the call raises / the draw is out of range -/
def breakTie (tb : TieBreaker) (ws : List Nat) : Option (List Nat) :=
  match tb with
  | .accept => some ws
  | .first => ws.head?.map (fun a => [a])
  | .random k => ws[k]?.map (fun a => [a])

def shift (fixer : Nat) (l : List Nat) : List Nat := l.map (· + fixer)

/-- the social choice function of an integer-scored rule -/
def scfI (fixer : Nat) (tb : TieBreaker) (s : List Int) : Option (List Nat) := breakTie tb (shift fixer (winnersI s))
def scfQ (fixer : Nat) (tb : TieBreaker) (s : List Rat) : Option (List Nat) := breakTie tb (shift fixer (winnersQ s))

/-- insertion of `j` into a list of positions sorted by non-increasing score (stable) -/
def insDesc (s : List Int) (j : Nat) : List Nat → List Nat
  | [] => [j]
  | a :: as => if s.getD a 0 < s.getD j 0 then j :: a :: as else a :: insDesc s j as

/-- `swf`: positions sorted by non-increasing score (one legal order), paired with the score -/
def swfI (fixer : Nat) (s : List Int) : List (Nat × Int) :=
  let order := (List.range s.length).reverse.foldl (fun acc j => insDesc s j acc) []
  order.map (fun j => (j + fixer, s.getD j 0))

/-- checker for a reported ranking: every alternative once, paired with its score, scores non-increasing -/
def validRankingI (fixer : Nat) (s : List Int) (out : List (Nat × Int)) : Bool :=
  out.length == s.length &&
  (List.range s.length).all (fun j => (out.filter (fun e => e.1 == j + fixer)).length == 1) &&
  out.all (fun e => decide (fixer ≤ e.1) && decide (e.1 - fixer < s.length) && e.2 == s.getD (e.1 - fixer) 0) &&
  (List.range (out.length - 1)).all (fun t => decide ((out.getD (t + 1) (0, 0)).2 ≤ (out.getD t (0, 0)).2))

def validRankingQ (fixer : Nat) (s : List Rat) (out : List (Nat × Rat)) : Bool :=
  out.length == s.length &&
  (List.range s.length).all (fun j => (out.filter (fun e => e.1 == j + fixer)).length == 1) &&
  out.all (fun e => decide (fixer ≤ e.1) && decide (e.1 - fixer < s.length) && e.2 == s.getD (e.1 - fixer) 0) &&
  (List.range (out.length - 1)).all (fun t => decide ((out.getD (t + 1) (0, 0)).2 ≤ (out.getD t (0, 0)).2))

/-- sign -/
def sgn (x : Int) : Int := if 0 < x then 1 else if x < 0 then -1 else 0

/-- Copeland, mirroring the code: `net i j = Σ_voters sgn(rank j − rank i)`, `score i = Σ_j sgn(net i j)` -/
def copelandNet (P : Profile) (i j : Nat) : Int :=
  sumI (P.map (fun row => sgn ((row.getD j 0 : Int) - (row.getD i 0 : Int))))

def copeland (P : Profile) (m : Nat) : List Int :=
  (List.range m).map (fun i => sumI ((List.range m).map (fun j => sgn (copelandNet P i j))))

/-- randomized scoring rules: the probability vector handed to the generator -/
def randProbs (s : List Rat) : Option (List Rat) :=
  let total := sumQ s
  if total = 0 then none else some (s.map (· / total))

end Vote
