/-! Core-only executable model of `RandomSerialDictatorship.scf` for a given picking order (C07).

`P[a][j] = some r` : agent `a` ranks item `j` at position `r` (smaller is better); `none` = NaN = unacceptable.
The number of items is the row length and may differ from the number of agents. -/

/-- rank of item `j` for agent `a`; `none` = unacceptable (or out of range) -/
def prefRank (P : List (List (Option Nat))) (a j : Nat) : Option Nat := (P.getD a []).getD j none

/-- first element with the smallest rank (second component) -/
def argminRank : List (Nat × Nat) → Option (Nat × Nat)
  | [] => none
  | c :: cs =>
    match argminRank cs with
    | none => some c
    | some b => if b.2 < c.2 then some b else some c

/-- the candidates `(item, rank)` of an agent: acceptable items that are not yet taken, by increasing item -/
def rsdCands (row : List (Option Nat)) (taken : List Nat) : List (Nat × Nat) :=
  (List.range row.length).filterMap (fun j =>
    if taken.contains j then none else (row.getD j none).map (fun r => (j, r)))

/-- `np.nanargmin` of the row after the taken columns were set to NaN (`none` if everything is NaN) -/
def bestItem (row : List (Option Nat)) (taken : List Nat) : Option Nat :=
  (argminRank (rsdCands row taken)).map (·.1)

/-- one pick: agent `a` takes its best remaining acceptable item, if any -/
def rsdStep (P : List (List (Option Nat))) (alloc : List (Option Nat)) (a : Nat) : List (Option Nat) :=
  match bestItem (P.getD a []) (alloc.filterMap id) with
  | none => alloc
  | some j => alloc.set a (some j)

def rsdLoop (P : List (List (Option Nat))) : List Nat → List (Option Nat) → List (Option Nat)
  | [], alloc => alloc
  | a :: rest, alloc => rsdLoop P rest (rsdStep P alloc a)

/-- serial dictatorship with picking order `order`; entry `a` is agent `a`'s item (`none` = unallocated) -/
def rsd (P : List (List (Option Nat))) (order : List Nat) : List (Option Nat) :=
  rsdLoop P order (List.replicate P.length none)

/-- `alloc` is exactly the serial-dictatorship outcome for `order` -/
def rsdExplainedB (P : List (List (Option Nat))) (alloc : List (Option Nat)) (order : List Nat) : Bool :=
  alloc == rsd P order

#eval rsd [[some 1, some 2, some 3], [some 1, none, some 2], [some 2, some 1, none]] [1, 0, 2]
#eval rsd [[some 1, none], [some 1, none], [none, some 1]] [0, 1, 2]
